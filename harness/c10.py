"""C10 - total error contract; silent mode skips unsupported statements.

Proof obligations: coq/theories/Props/C10.v.  S (on the implementation): for arbitrary text and any listed
dialect, analysis returns a result or raises one of the library's own exception types; in silent mode a
statement of an unsupported type is skipped with a warning and the result equals that of the script without
it.  Tie: the tree model's error kind against the implementation's on every parseable mutated statement."""
from __future__ import annotations

import multiprocessing as mp
import re
import traceback
import warnings

import astgen
import corpus
import t2tie
from common import NCPU, Check, load_known, rng, tier

VOC = ["(", ")", ",", ";", "select", "from", "where", "join", "on", "insert", "into", "values", "update", "set", "merge", "using",
       "when", "matched", "then", "'", "\"", "`", "{{", "}}", "{%", "%}", "{#", "#}", "*", ".", "as", "with", "union", "all", "case", "end",
       "1", "x", "null", "[", "]", "--", "/*", "*/", "only", "lateral", "not", "exists", "in", "values (1)", "over", "partition by"]
DIALECT_SPECIFIC = [
    ("postgres", "update only t set a = s.b from s"), ("mysql", "update t1 join t2 on t1.id = t2.id set t1.a = t2.b"),
    ("mysql", "rename table a to b, b to c"), ("vertica", "select swap_partitions_between_tables('a', 1)"),
    ("vertica", "select swap_partitions_between_tables('staging', 1, 2, 'target')"),
    ("ansi", "merge into t using s on t.id = s.id when not matched then insert (a) values (s.a, s.b)"),
    ("bigquery", "merge t using (select 1) on false when not matched then insert row"),
    ("sparksql", "insert overwrite directory '/tmp/x' select a from t"), ("snowflake", "copy into t from @stage/x"),
    ("tsql", "select a into #tmp from t"), ("hive", "insert overwrite table t partition (d = '1') select a from s"),
    ("ansi", "select '{{' from t"), ("ansi", "select count(*) {# from t"), ("ansi", "select {% a %} from t"), ("redshift", "analyze (t)"),
    ("exasol", "create view v as select a from t"), ("exasol", "insert into t select id FROM table tab1"), ("clickhouse", "select a from t where b in (select c from u)"),
    ("tsql", "MERGE TOP (1) t USING s ON t.a=s.a WHEN NOT MATCHED THEN INSERT (a) VALUES (s.a);"),
    ("tsql", "MERGE TOP (1) t USING s ON t.a=s.a WHEN MATCHED THEN UPDATE SET t.a = s.a;"),
    ("oracle", "select a from t where rownum < 2"), ("teradata", "sel a from t"), ("duckdb", "from t select a"),
]


# complete templating expressions / statements and in-file configuration directives of the parser: whatever the
# templater or the configuration loader raises on them must come out as the library's InvalidSyntaxException
TEMPLATED = ["{{ 1/0 }}", "{{ 7 % 0 }}", "{{ x }}", "{{ x.y.z }}", "{{ x | upper }}", "{{ [1, 2][5] }}", "{{ {}['k'] }}", "{{ 'a' + 1 }}",
             "{{ undefined_fn() }}", "{% if x %}a{% endif %}", "{% for i in range(3) %}{{ i }},{% endfor %}", "{% set a = 1 %}",
             "{% include 'nofile.sql' %}", "{% macro m() %}{% endmacro %}", "{# c #}", "{{ 1 if }}", "{% endif %}", "{{ none.attr }}",
             "{{ 1 | nosuchfilter }}", "{% raw %}{{{% endraw %}", "{{ int('x') }}", "{% import 'x' as y %}", "${x}", "%(x)s", ":x", "@x", "$1"]
DIRECTIVES = ["-- sqlfluff:dialect:nosuchdialect\n", "-- sqlfluff:templater:python\n", "-- sqlfluff:templater:nosuch\n",
              "-- sqlfluff:rules:L001\n", "-- sqlfluff:max_line_length:x\n", "-- sqlfluff:dialect:mysql\n", "-- noqa: disable=all\n",
              "-- sqlfluff:indentation:tab_space_size:zero\n", "-- sqlfluff:templater:jinja:apply_dbt_builtins:maybe\n",
              "-- sqlfluff:core:encoding:nosuch\n", "-- sqlfluff:\n", "-- sqlfluff:dialect\n"]


def toks(s):
    return re.findall(r"\w+|\s+|[^\w\s]", s)


def mutate(r, sql, pool):
    t = toks(sql)
    if not t:
        return sql
    k = r.choice(["del", "dup", "swap", "ins", "ins", "nest", "cross"])
    i = r.randrange(len(t))
    if k == "del":
        t.pop(i)
    elif k == "dup":
        t.insert(i, t[i])
    elif k == "swap" and len(t) > 1:
        j = min(i + 1, len(t) - 1)
        t[i], t[j] = t[j], t[i]
    elif k == "ins":
        t.insert(i, " " + r.choice(VOC) + " ")
    elif k == "nest":
        n = r.randint(1, 30)
        t.insert(i, "(" * n)
        t.insert(min(len(t), i + 2), ")" * n)
    else:
        o = toks(r.choice(pool))
        t = t[:i] + o[r.randrange(len(o)):]
    return "".join(t)


ACCESSORS = ["_eval", "source_tables", "target_tables", "intermediate_tables", "get_column_lineage", "to_cytoscape", "__str__",
             "print_table_lineage"]


def run_one(case):
    """the outcome of THREE consecutive calls of public accessors on one runner object (which three: derived from the text);
    all must end the same way - a result, or the same exception type of the library (lazy evaluation must not turn the
    second call into something else)"""
    import contextlib
    import io
    import logging
    import zlib
    logging.disable(logging.CRITICAL)
    warnings.filterwarnings("ignore")
    from sqllineage.exceptions import SQLLineageException
    from sqllineage.runner import LineageRunner
    sql, d, silent = case
    h = zlib.crc32(sql.encode("utf-8", "replace"))
    seq = [ACCESSORS[h % 8], ACCESSORS[(h // 8) % 8], ACCESSORS[(h // 64) % 8]]
    outs = []
    lr = None
    for acc in seq:
        try:
            if lr is None:
                lr = LineageRunner(sql, dialect=d, silent_mode=silent)
            a = getattr(lr, acc)
            if acc == "print_table_lineage":
                with contextlib.redirect_stdout(io.StringIO()):
                    a()
            elif callable(a):
                a()
            outs.append("ok")
        except SQLLineageException as e:
            outs.append("lib:" + type(e).__name__)
        except BaseException as e:
            tb = traceback.extract_tb(e.__traceback__)
            site = [f for f in tb if "/sqllineage/" in f.filename]
            s = site[-1] if site else (tb[-1] if tb else None)
            outs.append("ESC:%s@%s:%s" % (type(e).__name__, s.filename.split("/sqllineage/")[-1] if s else "?", s.name if s else "?"))
    esc = [o for o in outs if o.startswith("ESC")]
    if esc:
        return esc[0]
    if len(set(outs)) > 1:
        return "ESC:inconsistent-outcomes@%s:%s" % ("/".join(seq), "/".join(outs))
    return outs[0]


def main() -> int:
    ck = Check("C10")
    ck.assumptions += ["exceptions raised by the third-party parser are converted at the library boundary (fix af02751-style: checked on every case)",
                       "multi-pair RENAME statements may raise networkx.NetworkXError (recorded as K-C03-1 / K-C10-5)"]
    ck.trusted += ["tree model Tree/Extract.v with explicit error values for every partial operation, tied by suite T2 on mutated statements (this run)", "harness/c10.py"]
    proofs_ok = ck.proofs()
    quick = tier() == "quick"
    r = rng("c10")
    spec_failures, disagreements, known_hits = [], [], {}
    recs = [x for x in corpus.load() if x["dialect"] != "non-validating" and not x.get("origin", "").startswith("tpcds")]
    pool = [x["sql"] for x in recs] + [astgen.to_sql(astgen.gen_stmt(r, 1)) for _ in range(60)]
    dialects = ["ansi", "mysql", "tsql", "vertica", "sparksql", "postgres", "bigquery", "snowflake", "hive", "oracle", "redshift",
                "clickhouse", "exasol", "teradata", "duckdb", "trino", "athena", "db2", "sqlite", "databricks"]
    cases = []
    for _ in range(5000 if quick else 42000):
        src = r.choice(recs)
        sql = mutate(r, src["sql"] if r.random() < 0.7 else r.choice(pool), pool)
        if r.random() < 0.25:
            sql = mutate(r, sql, pool)
        cases.append((sql, src["dialect"] if r.random() < 0.6 else r.choice(dialects), r.random() < 0.2))
    cases += [(s, d, False) for d, s in DIALECT_SPECIFIC] + [(s, d, True) for d, s in DIALECT_SPECIFIC]
    for _ in range(500 if quick else 6000):
        src = r.choice(recs)
        t = toks(src["sql"])
        c = r.random()
        if c < 0.6 and t:
            t.insert(r.randrange(len(t) + 1), " " + r.choice(TEMPLATED) + " ")
            sql = "".join(t)
        elif c < 0.9:
            sql = r.choice(DIRECTIVES) + src["sql"]
        else:
            sql = r.choice(DIRECTIVES) + "select " + r.choice(TEMPLATED) + " from t"
        cases.append((sql, src["dialect"] if r.random() < 0.6 else r.choice(dialects), r.random() < 0.2))
    for tx in TEMPLATED:
        cases.append(("select %s from t" % tx, "ansi", False))
        cases.append(("select a from t;\nselect %s from t" % tx, "ansi", True))
    for dv in DIRECTIVES:
        cases.append((dv + "select a from t", "ansi", False))
    # names spelled the way some dialect spells variables / parameters / temporary objects, in every identifier position
    # (a grammar may accept them where the extractors expect an identifier segment)
    sigils = ["@x", "@@x", ":x", "$x", "$1", "${x}", "&x", "#x", "##x", "?", "%s", "%(x)s", "@`x`", ":1", "$$x$$", "x$y", "x#y", "_x", "`@x`"]
    sig_tpl = ["select a.c from t as %s join u as b on a.i = b.i", "select c from t %s", "select c from t as %s",
               "insert into %s select c from t", "select %s from t", "select c as %s from t", "with %s as (select c from t) select c from u",
               "update t as %s set c = 1", "select c from (select c from t) as %s", "select f(%s) from t", "select c from t where c = %s",
               "select c from %s.t", "select c from t join %s on 1 = 1", "create table %s as select c from t", "select %s.c from t",
               "merge into t using %s on 1 = 1 when matched then update set c = 1", "delete from %s", "select c into %s from t",
               "insert into t (%s) select c from u", "select c from t as a (%s)", "select c from %s as b (d)"]
    for d in dialects:
        for sg in sigils:
            for tp in (sig_tpl if not quick else sig_tpl[(len(sg) + len(d)) % 2::2] + sig_tpl[:3]):
                cases.append((tp % sg, d, False))
    for d in dialects:
        cases.append(("", d, False))
        cases.append(("(" * 30 + "select 1" + ")" * 30, d, False))
    with mp.get_context("fork").Pool(min(NCPU, 16)) as p:
        out = p.map(run_one, cases, chunksize=16)
    dist = {"cases": len(cases), "outcomes": {}, "reached_extractor": 0}
    dist_ef = {}
    known = {f["id"]: f for f in load_known() if f["property"] == "C10" and f["status"] == "known"}
    for (sql, d, silent), o in zip(cases, out):
        ck.count()
        key = o if not o.startswith("ESC") else o
        dist["outcomes"][key] = dist["outcomes"].get(key, 0) + 1
        if o == "ok" or o == "lib:UnsupportedStatementException" or o == "lib:SQLLineageException":
            dist["reached_extractor"] += 1
            ck.nontriv((d, sql))
        if o.startswith("ESC"):
            site = o.split("@", 1)[1]
            cls = next((k for k, f in known.items() if f.get("site") == site and f.get("exception") == o[4:].split("@")[0]), None)
            case = {"suite": "malformed-stream", "dialect": d, "silent_mode": silent, "text": sql, "escaped": o,
                    "spec": "analysis returns a result or raises one of the library's own exception types"}
            if cls:
                known_hits.setdefault(cls, case)
            else:
                spec_failures.append(case)
    # ---- tie: error kinds of the tree model on the statements that parse ---------------------------------------
    sample = [(sql, d) for (sql, d, silent), o in zip(cases, out) if not o.startswith("lib:InvalidSyntax") and ";" not in sql.strip().rstrip(";")]
    sample = sample[: (350 if quick else 4000)]
    res = t2tie.run([{"sql": s, "dialect": d, "metadata": None, "config": {}} for s, d in sample], escape_free=True)
    INTERNAL = ("ERR:IndexError", "ERR:AttributeError", "ERR:KeyError", "ERR:TypeError", "ERR:AssertionError", "ERR:NetworkXError")
    dist_ef.update({"trees": 0, "escape_free": 0, "not_escape_free": 0, "not_escape_free_examples": []})
    for x in res:
        ck.count()
        if "skip" in x or "parse_error" in x or "model" not in x:
            continue
        # the hypothesis of c10_total_on_all_trees_partial on the parser's own trees: a tree on which it is false is either a
        # shape no extractor visits or a reachable crash site; a tree on which it is true and which the implementation
        # nevertheless leaves with an internal error contradicts the theorem's transfer to the code
        dist_ef["trees"] += 1
        if x.get("escape_free", "").startswith("ef"):
            dist_ef["escape_free"] += 1
            dist_ef["escape_free_and_nw_inner"] = dist_ef.get("escape_free_and_nw_inner", 0) + x["escape_free"].endswith("+nw")
            if x["escape_free"].endswith("+nw") and (x["impl"] == "ERR:ValueError" or x["model"].startswith("ERR:ValueError")):
                disagreements.append({"suite": "T2-escape-free", "dialect": x["rec"]["dialect"], "sql": x["stmt"], "impl": x["impl"][:200],
                                      "model": x["model"][:200], "broken_transfer": "c10_total_on_all_trees_strict: escape_free and nw_inner hold of this parse tree, yet ValueError came out"})
            if x["impl"].startswith(INTERNAL) or x["model"].startswith(("ERR:IndexError", "ERR:AttributeError", "ERR:KeyError")):
                disagreements.append({"suite": "T2-escape-free", "dialect": x["rec"]["dialect"], "sql": x["stmt"], "impl": x["impl"][:200],
                                      "model": x["model"][:200], "broken_transfer": "c10_total_on_all_trees_partial: escape_free holds of this parse tree, yet an internal error came out"})
        else:
            dist_ef["not_escape_free"] += 1
            if len(dist_ef["not_escape_free_examples"]) < 5:
                dist_ef["not_escape_free_examples"].append({"dialect": x["rec"]["dialect"], "sql": x["stmt"][:200], "impl": x["impl"][:60]})
        if x["impl"] != x["model"]:
            if x["impl"].startswith("ERR") or x["model"].startswith("ERR"):
                disagreements.append({"suite": "T2-error-kind", "dialect": x["rec"]["dialect"], "sql": x["stmt"], "impl": x["impl"][:300], "model": x["model"][:300]})
            else:
                disagreements.append({"suite": "T2-mutated", "dialect": x["rec"]["dialect"], "sql": x["stmt"], "impl": x["impl"][:1200], "model": x["model"][:1200]})
    # ---- silent mode: insertion position of unsupported statements ----------------------------------------------
    unsupported = ["create index i on s1.t1 (a)", "grant select on s1.t1 to u", "commit"]
    n_silent = 0
    for _ in range(60 if quick else 600):
        k = r.randint(1, 4)
        stmts = [astgen.to_sql(astgen.gen_stmt(r, 1), astgen.Opts(trailing="")) for _ in range(k)]
        base = t2tie._summary_only({"sql": ";\n".join(stmts), "dialect": "ansi"})
        for pos in range(k + 1):
            withu = stmts[:pos] + [r.choice(unsupported)] + stmts[pos:]
            ck.count()
            n_silent += 1
            with warnings.catch_warnings(record=True) as w:
                warnings.simplefilter("always")
                got = t2tie._summary_only({"sql": ";\n".join(withu), "dialect": "ansi", "silent": True})
            strict = t2tie._summary_only({"sql": ";\n".join(withu), "dialect": "ansi", "silent": False})
            if got != base:
                spec_failures.append({"suite": "silent-skip", "script": withu, "position": pos, "silent_result": got, "result_without_it": base,
                                      "spec": "in silent mode an unsupported statement is skipped and the result equals that of the script without it"})
            if strict != "ERR:UnsupportedStatementException":
                spec_failures.append({"suite": "strict-unsupported", "script": withu, "result": strict,
                                      "spec": "without silent mode an unsupported statement raises UnsupportedStatementException"})
    dist["silent_mode_cases"] = n_silent
    # ---- the outcome is a function of (text, dialect, options): not of what was analysed before in this process -----
    def outcome(sql, d, cfg=None):
        try:
            return t2tie._summary_only({"sql": sql, "dialect": d, "config": cfg or {}})
        except BaseException as e:
            return "ESC:" + type(e).__name__
    tsql_texts = [x["sql"] for x in recs if x["dialect"] == "tsql"]
    tsql_texts = r.sample(tsql_texts, min(len(tsql_texts), 25 if quick else 200)) + \
        ["SELECT a, b INTO staging FROM dbo.orders WITH (NOLOCK)", "select top 5 a from t", "insert into x select a from t with (nolock)",
         "select a from t option (maxdop 1)"]
    others = ["ansi", "mysql", "postgres"]
    before = {(t, d): outcome(t, d) for t in tsql_texts for d in others}
    for t in tsql_texts:
        outcome(t, "tsql", {"TSQL_NO_SEMICOLON": True})
        outcome(t + "\n" + t, "tsql", {"TSQL_NO_SEMICOLON": True})
        outcome(t, "tsql")
    n_hist = 0
    for (t, d), b in before.items():
        ck.count()
        n_hist += 1
        a = outcome(t, d)
        if a != b:
            spec_failures.append({"suite": "history-independence", "dialect": d, "text": t, "outcome_first": b,
                                  "outcome_after_tsql_runs": a, "earlier": "the same text analysed under tsql with and without TSQL_NO_SEMICOLON",
                                  "spec": "text the dialect's parser cannot parse is reported as invalid syntax, whatever was analysed earlier in the process"})
    dist["history_independence_cases"] = n_hist
    for kid, case in known_hits.items():
        ck.known(kid, known[kid]["what"] + " (e.g. dialect=%s %r)" % (case["dialect"], case["text"][:120]))
    ck.sample({"text": cases[7][0][:200], "dialect": cases[7][1], "outcome": out[7]})
    dist["escape_free_on_parser_trees"] = dist_ef
    ck.notes["input_distribution"] = dist
    ck.conclude(spec_failures, disagreements, proofs_ok,
                "correspondence T2 (error kinds) between Tree/Extract.v (theorems c10_*) and the sqlfluff extractors",
                "the error contract was evaluated on every case of the malformed stream under the listed dialects; no failing input")
    return ck.finish(rule="corpus and generated statements under token deletion / duplication / swap / insertion (SQL keywords, brackets, quotes, templating "
                          "metacharacters) / bracket nesting up to 30 / cross-over / complete templating expressions and in-file parser directives, 1-2 mutations each, x 20 dialects x silent mode; dialect-specific statements; "
                          "silent mode x insertion position of unsupported statements; tsql texts under other dialects before and after tsql runs; non-trivial = distinct case that reached an extractor")


if __name__ == "__main__":
    raise SystemExit(main())
