"""C02 - single-statement column lineage is exact (see harness/sqltie.exactness_check)."""
import sqltie
if __name__ == "__main__":
    raise SystemExit(sqltie.exactness_check("C02", "columns"))
