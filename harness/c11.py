"""C11 - analysis is deterministic.

Proof obligations: coq/theories/Props/C11.v.  S (on the implementation): the same script, dialect and metadata
give identical summaries, column paths and graph export under every PYTHONHASHSEED (fresh interpreter per
seed), apart from the generated names of anonymous sub-queries; accessors can be called in any order and any
number of times.  Tie: the (list-based, hence order-free) model Tree/Script.v against the implementation
under the seed of this process (suite T4)."""
from __future__ import annotations

import json
import os
import subprocess
from concurrent.futures import ThreadPoolExecutor

import astgen
import corpus
import gen_scripts
import t2tie
from common import Check, impl_env, load_known, rng, tier

SPECIAL = [
    # K-C11-1: metadata + SELECT * over a join sharing a column name
    {"sql": "insert into s.x select * from s.a join s.b on s.a.k = s.b.k", "dialect": "ansi", "metadata": {"s.a": ["k", "p"], "s.b": ["k", "q"]}, "class": "K-C11-1"},
    # K-C11-2 (= K-C03-1): chained multi-pair RENAME
    {"sql": "insert into b select * from a;\nrename table b to c, c to d", "dialect": "mysql", "metadata": None, "class": "K-C11-2"},
    # same bare table name in two schemas, qualified by the bare name
    {"sql": "insert into rpt.daily select orders.amount, o.region from sales.orders join archive.orders as o on orders.id = o.id", "dialect": "ansi", "metadata": None},
    {"sql": "insert into o select t.a, u.b from s1.t join s2.t u on 1 = 1", "dialect": "ansi", "metadata": None},
    {"sql": "insert into o select p.a from s1.t p, s2.t q, s3.t r where p.k = q.k", "dialect": "ansi", "metadata": None},
]


def cyclic_scripts(r, n):
    """column graphs with cycles of length >= 2 that are entered from several source columns and left towards targets
    (staging tables that feed each other): which paths exist must not depend on the order in which sources are visited"""
    out = []
    for _ in range(n):
        k = r.choice([2, 2, 3, 4])
        ring = ["stg.t%d" % i for i in range(k)]
        st = []
        for i, t in enumerate(ring):
            if r.random() < 0.8 or i == 0:
                st.append("insert into %s select x from src.s%d" % (t, i))
        for i, t in enumerate(ring):
            st.append("insert into %s select x from %s" % (ring[(i + 1) % k], t))
        if k > 2 and r.random() < 0.5:
            st.append("insert into %s select x from %s" % (ring[0], ring[2]))
        for j in range(r.choice([1, 1, 2])):
            st.append("insert into rpt.f%d select x from %s" % (j, r.choice(ring)))
        r.shuffle(st)
        out.append({"sql": ";\n".join(st), "dialect": "ansi", "metadata": None})
    return out


def run_seed(args):
    hashseed, recs = args
    p = subprocess.run(["/venv/bin/python", "-W", "ignore", "/verif/harness/c11_worker.py"], input=json.dumps(recs), capture_output=True,
                       text=True, env=impl_env(hashseed, {"PYTHONPATH": os.environ.get("VERIF_REPO", "/repo") + ":/verif/harness"}))
    if p.returncode != 0:
        raise RuntimeError(p.stderr[-2000:])
    return json.loads(p.stdout.strip().splitlines()[-1])


def main() -> int:
    ck = Check("C11")
    ck.assumptions += ["hash seeds are a finite sample (4 quick / 32 thorough); the theorems are about the model, whose iterations are over lists",
                       "generated names of anonymous sub-queries (subquery_<hash>) are masked before comparison"]
    ck.trusted += ["list-based models Holder/Build.v, Holder/TableLevel.v, Tree/Script.v, tied by suite T4 under this process's hash seed (this run)",
                   "harness/c11.py, harness/c11_worker.py"]
    proofs_ok = ck.proofs()
    quick = tier() == "quick"
    r = rng("c11")
    spec_failures, disagreements, known_hits = [], [], {}
    recs = [x for x in corpus.load() if x["dialect"] != "non-validating" and not x.get("origin", "").startswith("tpcds")
            and not any(v for v in (x.get("config") or {}).values())]
    recs = r.sample(recs, 120 if quick else len(recs))
    recs = [{"sql": x["sql"], "dialect": x["dialect"], "metadata": x.get("metadata")} for x in recs]
    gen = gen_scripts.gen_records(r, 90 if quick else 1200) + [dict(x, silent=False, provider="dummy", config={}, origin="cyclic")
                                                             for x in cyclic_scripts(r, 12 if quick else 150)]
    ast = [{"sql": astgen.to_sql(astgen.gen_stmt(r, 2)), "dialect": "ansi", "metadata": None} for _ in range(90 if quick else 1200)]
    allrecs = recs + [{"sql": x["sql"], "dialect": "ansi", "metadata": x.get("metadata")} for x in gen] + ast + \
        [{k: v for k, v in x.items() if k != "class"} for x in SPECIAL]
    classes = [None] * (len(allrecs) - len(SPECIAL)) + [x.get("class") for x in SPECIAL]
    seeds = [0, 1, 2, 3] if quick else list(range(32))
    with ThreadPoolExecutor(max_workers=16) as ex:
        results = list(ex.map(run_seed, [(s, allrecs) for s in seeds]))
    dist = {"scripts": len(allrecs), "seeds": seeds, "order_only_differences": 0, "analysis_errors": 0}
    known = {f["id"]: f for f in load_known() if f["property"] == "C11" and f["status"] == "known"}
    for i, rec in enumerate(allrecs):
        obs = [res[i] for res in results]
        ck.count(len(seeds))
        case = {"sql": rec["sql"], "dialect": rec["dialect"], "metadata": rec.get("metadata")}
        oks = {o["ok"] for o in obs}
        if oks == {False}:
            dist["analysis_errors"] += 1
            if len({o["error"] for o in obs}) > 1:
                spec_failures.append(dict(case, suite="seeds", outcomes=[o["error"] for o in obs], spec="the same error under every hash seed"))
            continue
        if len(oks) > 1:
            c = dict(case, suite="seeds", outcomes=[o.get("error", "ok") for o in obs], seeds=seeds,
                     spec="the same outcome under every hash seed")
            if classes[i] in known:
                known_hits.setdefault(classes[i], c)
            else:
                spec_failures.append(c)
            continue
        if obs[0]["paths"]:
            ck.nontriv((rec["dialect"], rec["sql"]))
        if not all(o["consistent"] for o in obs):
            spec_failures.append(dict(case, suite="accessor-order", spec="accessors can be called in any order and any number of times with the same answers"))
        for key in ("source", "target", "intermediate", "summary"):
            vals = {json.dumps(o[key]) for o in obs}
            if len(vals) > 1:
                c = dict(case, suite="seeds", observable=key, values=sorted(vals)[:4], seeds=seeds, spec="identical under every hash seed")
                (known_hits.setdefault(classes[i], c) if classes[i] in known else spec_failures.append(c))
        for key, order_class in (("paths", "K-C11-4"), ("export_table", "K-C11-3"), ("export_column", "K-C11-3")):
            as_sets = {json.dumps(sorted(o[key])) for o in obs}
            as_lists = {json.dumps(o[key]) for o in obs}
            strip_ids = lambda l: sorted(x for x in l if '"id": "e' not in x or '"source"' not in x)
            if key.startswith("export"):
                # edge ids e<i> follow the order; compare content without them
                as_sets = {json.dumps(sorted(json.dumps({k: v for k, v in json.loads(x).items() if not (k == "id" and "source" in json.loads(x))}, sort_keys=True)
                                             for x in o[key])) for o in obs}
            if len(as_sets) > 1:
                c = dict(case, suite="seeds", observable=key, values=[json.loads(v)[:6] for v in sorted(as_sets)[:3]], seeds=seeds,
                         spec="identical content under every hash seed")
                # K-C11-5: only the name under which a sub-query owner (one text, several aliases) is exported differs
                def mask(o):
                    out = []
                    for x in o[key]:
                        e = json.loads(x)
                        if e.get("type") == "SubQuery":
                            continue
                        if any(pc.get("type") == "SubQuery" for pc in e.get("parent_candidates", [])):
                            e.pop("parent", None)
                        if "source" in e:
                            e.pop("id", None)
                        out.append(json.dumps(e, sort_keys=True))
                    return json.dumps(sorted(out))
                if classes[i] in known:
                    known_hits.setdefault(classes[i], c)
                elif key == "export_column" and len({mask(o) for o in obs}) == 1 and "K-C11-5" in known:
                    known_hits.setdefault("K-C11-5", c)
                else:
                    spec_failures.append(c)
            elif len(as_lists) > 1:
                dist["order_only_differences"] += 1
                if order_class in known:
                    known_hits.setdefault(order_class, dict(case, observable=key))
                else:
                    spec_failures.append(dict(case, suite="seeds-order", observable=key, spec="identical order under every hash seed"))
    # tie under this process's seed
    for x in t2tie.run_scripts(gen[: (60 if quick else 600)] + [dict(a, config={}, silent=False) for a in ast[: (40 if quick else 400)]]):
        ck.count()
        if "skip" in x or x.get("stats", {}).get("multi_rename"):
            continue
        if x["impl"] != x.get("model"):
            disagreements.append({"suite": "T4", "sql": x["rec"]["sql"], "metadata": x["rec"].get("metadata"), "impl": x["impl"][:1200], "model": x.get("model", "")[:1200]})
    # ---- "in every repetition, in every process": the answer must not depend on what this process analysed before -------
    # (in particular on runs under another dialect or with other options on the same text)
    tsql_texts = [x["sql"] for x in corpus.load() if x["dialect"] == "tsql" and not x.get("origin", "").startswith("tpcds")]
    tsql_texts = r.sample(tsql_texts, min(len(tsql_texts), 25 if quick else 150)) + \
        ["INSERT INTO tgt SELECT a, total = b + c FROM src", "SELECT a INTO tgt FROM src", "select top 3 a from t", "insert into x select a from t"]
    probes = [(t, d) for t in tsql_texts for d in ("ansi", "mysql")]
    first = [t2tie._summary_only({"sql": t, "dialect": d}) for t, d in probes]
    for t in tsql_texts:
        t2tie._summary_only({"sql": t, "dialect": "tsql", "config": {"TSQL_NO_SEMICOLON": True}})
        t2tie._summary_only({"sql": t + "\n" + t, "dialect": "tsql", "config": {"TSQL_NO_SEMICOLON": True}})
        t2tie._summary_only({"sql": t, "dialect": "tsql"})
        t2tie._summary_only({"sql": t, "dialect": "sparksql"})
    dist["repetition_after_other_runs"] = 0
    for (t, d), a in zip(probes, first):
        ck.count()
        dist["repetition_after_other_runs"] += 1
        b = t2tie._summary_only({"sql": t, "dialect": d})
        if not a.startswith("ERR"):
            ck.nontriv(("repeat", d, t))
        if a != b:
            spec_failures.append({"suite": "repetition-in-process", "sql": t, "dialect": d, "first_answer": a, "answer_after_other_runs": b,
                                  "other_runs": "the same text under tsql (with and without TSQL_NO_SEMICOLON) and sparksql",
                                  "spec": "the same script, dialect, metadata and configuration yield identical results in every repetition"})
    # ---- the same metadata OBJECT across repetitions: runs in between (also ones that fail part-way after having created
    # tables) must not change the answer the same script gets with the same provider ------------------------------------
    from sqllineage.core.metadata.dummy import DummyMetaDataProvider
    from sqllineage.runner import LineageRunner
    from sqllineage.exceptions import SQLLineageException
    import logging
    import warnings as _w
    logging.disable(logging.CRITICAL)

    def obs(sql, prov, d):
        try:
            with _w.catch_warnings():
                _w.simplefilter("ignore")
                lr = LineageRunner(sql, dialect=d, metadata_provider=prov)
                return "|".join([",".join(sorted(map(str, lr.source_tables))), ",".join(sorted(map(str, lr.target_tables))),
                                 ";".join(sorted("<-".join(str(c) for c in reversed(pth)) for pth in lr.get_column_lineage()))])
        except SQLLineageException as e:
            return "ERR:" + type(e).__name__
    md0 = {"main.src": ["a", "b"], "main.dim": ["k", "x"]}
    probes2 = ["insert into main.report select * from main.staging",
               "insert into main.report select a, x from main.staging join main.dim on 1 = 1",
               "insert into main.report select * from main.src",
               "insert into main.report select b, k from main.src, main.other",
               "create table main.out as select * from main.staging s join main.dim d on s.k = d.k"]
    creators = ["create table main.staging as select a, b from main.src", "create table main.other as select k, b from main.dim",
                "create table main.src as select z from main.zz", "insert into main.staging (x, y) select a, b from main.src",
                "create view main.staging as select k, x from main.dim"]
    endings = ["", ";\nselect from where", ";\ncreate index i on main.src (a)", ";\nselect * from main.staging a full full join b",
               ";\ndrop table main.staging", ";\nselect '{{' from t"]
    dist["repetition_same_provider"] = 0
    for d in ("ansi", "sparksql", "non-validating"):
        for pr in probes2:
            fresh = obs(pr, DummyMetaDataProvider(dict(md0)), d)
            for cr in creators:
                for en in endings:
                    prov = DummyMetaDataProvider(dict(md0))
                    a = obs(pr, prov, d)
                    mid = obs(cr + en, prov, d)
                    b = obs(pr, prov, d)
                    ck.count()
                    dist["repetition_same_provider"] += 1
                    if not a.startswith("ERR"):
                        ck.nontriv(("same-provider", d, pr, cr, en))
                    if not (a == b == fresh):
                        spec_failures.append({"suite": "repetition-same-provider", "dialect": d, "metadata": md0, "script": pr,
                                              "run_in_between_on_the_same_provider_object": cr + en, "outcome_of_that_run": mid,
                                              "answer_with_fresh_provider": fresh, "first_answer": a, "answer_after_the_other_run": b,
                                              "spec": "the same script, dialect, metadata and configuration yield identical results in every repetition"})
    for kid, case in known_hits.items():
        if kid in known:
            ck.known(kid, known[kid]["what"] + " (e.g. %r)" % case["sql"][:120])
    ck.sample({"sql": allrecs[0]["sql"][:200], "paths_seed0": results[0][0].get("paths", [])[:3]})
    ck.notes["input_distribution"] = dist
    ck.conclude(spec_failures, disagreements, proofs_ok,
                "correspondence T4 between the list-based models (theorems c11_*) and sqllineage under this process's hash seed",
                "summaries, paths and exports were compared across all hash seeds for every script of this run; no failing input")
    return ck.finish(rule="%d scripts (corpus sample, generated multi-statement scripts with/without metadata, generated core statements, same-named tables in "
                          "different schemas) x PYTHONHASHSEED in %s (fresh interpreter each) x shuffled repeated accessor calls; non-trivial = distinct script "
                          "with column lineage" % (len(allrecs), seeds))


if __name__ == "__main__":
    raise SystemExit(main())
