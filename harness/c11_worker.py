"""Runs in a fresh interpreter under a given PYTHONHASHSEED: analyses the records on stdin and prints what a
user can observe (summaries, column paths, graph export), plus an accessor-order consistency flag."""
import json
import random
import re
import sys
import warnings

warnings.filterwarnings("ignore")
import logging  # noqa: E402
logging.disable(logging.CRITICAL)
from sqllineage.core.metadata.dummy import DummyMetaDataProvider  # noqa: E402
from sqllineage.runner import LineageRunner  # noqa: E402
from sqllineage.utils.constant import LineageLevel  # noqa: E402

ANON = re.compile(r"subquery_-?\d+")


def canon(s):
    return ANON.sub("subquery_#", s)


def observe(rec, order_seed):
    md = rec.get("metadata")
    mk = lambda: LineageRunner(rec["sql"], dialect=rec.get("dialect", "ansi"),
                               metadata_provider=DummyMetaDataProvider(md) if md else DummyMetaDataProvider())
    accessors = {
        "source": lambda lr: [str(t) for t in lr.source_tables],
        "target": lambda lr: [str(t) for t in lr.target_tables],
        "intermediate": lambda lr: [str(t) for t in lr.intermediate_tables],
        "paths": lambda lr: [canon(" <- ".join(str(c) for c in reversed(p))) for p in lr.get_column_lineage()],
        "summary": lambda lr: canon(str(lr)),
        "export_table": lambda lr: [canon(json.dumps(e["data"], sort_keys=True)) for e in lr.to_cytoscape()],
        "export_column": lambda lr: [canon(json.dumps(e["data"], sort_keys=True)) for e in lr.to_cytoscape(LineageLevel.COLUMN)],
    }
    try:
        lr = mk()
        base = {k: f(lr) for k, f in accessors.items()}
        # any order, any number of times
        lr2 = mk()
        names = list(accessors) * 2
        random.Random(order_seed).shuffle(names)
        consistent = all(accessors[k](lr2) == base[k] for k in names)
        return {"ok": True, "consistent": consistent, **base}
    except Exception as e:
        return {"ok": False, "error": type(e).__name__}


def main():
    recs = json.load(sys.stdin)
    print(json.dumps([observe(r, i) for i, r in enumerate(recs)]))


if __name__ == "__main__":
    main()
