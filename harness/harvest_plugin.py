"""pytest plugin: records every distinct (sql, dialect, metadata, config) the repository's own tests analyse."""
import json
import os

RECORDS = {}


def pytest_configure(config):
    from sqllineage import runner as runner_mod
    from sqllineage.config import SQLLineageConfig
    from sqllineage.core.metadata.dummy import DummyMetaDataProvider

    orig = runner_mod.LineageRunner._eval

    def recording_eval(self):
        try:
            mp = self._metadata_provider
            if isinstance(mp, DummyMetaDataProvider):
                md = dict(mp.metadata) if mp.metadata else None
                kind = "dummy"
            else:
                md, kind = None, type(mp).__name__
            rec = {
                "sql": self._sql, "dialect": self._dialect, "silent": bool(self._silent_mode),
                "metadata": md, "provider": kind,
                "config": {"DEFAULT_SCHEMA": SQLLineageConfig.DEFAULT_SCHEMA,
                           "TSQL_NO_SEMICOLON": SQLLineageConfig.TSQL_NO_SEMICOLON,
                           "LATERAL_COLUMN_ALIAS_REFERENCE": SQLLineageConfig.LATERAL_COLUMN_ALIAS_REFERENCE},
            }
            key = json.dumps(rec, sort_keys=True)
            RECORDS.setdefault(key, rec)
        except Exception:
            pass
        return orig(self)

    runner_mod.LineageRunner._eval = recording_eval


def pytest_unconfigure(config):
    out = os.environ.get("HARVEST_OUT")
    if out:
        with open(out, "w") as f:
            json.dump(sorted(RECORDS.values(), key=lambda r: json.dumps(r, sort_keys=True)), f, indent=0)
