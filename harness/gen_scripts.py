"""Generators of multi-statement SQL scripts with column-level content (ansi core
grammar), with optional metadata.  Every random choice comes from the Random passed in."""
from __future__ import annotations

TABLES = ["s.a", "s.b", "s.c", "s.d", "t.a", "w"]
COLS = ["k", "x", "y", "z"]

SELECT_BODIES = [
    # (template, number of read tables)
    ("select {c1}, {c2} from {r1}", 1),
    ("select * from {r1}", 1),
    ("select {c1} as {c3}, {c2} + 1 as {c4} from {r1}", 1),
    ("select p.{c1}, q.{c2} from {r1} p join {r2} q on p.k = q.k", 2),
    ("select {c1}, {c2} from {r1} p join {r2} q on p.k = q.k", 2),
    ("select p.* from {r1} p left join {r2} q on p.k = q.k", 2),
    ("select {c1} from {r1} union all select {c2} from {r2}", 2),
    ("select t.{c1} from (select {c1}, {c2} from {r1}) t", 1),
    ("select * from (select {c1} from {r1}) t", 1),
    ("select t.{c1}, u.{c2} from (select {c1} from {r1}) t, (select {c2} from {r2}) u", 2),
    ("select t.{c1} from (select {c1} from {r1}) t union all select t.{c2} from (select {c2} from {r2}) t", 2),
    ("with c as (select {c1}, {c2} from {r1}) select {c1} from c", 1),
    ("with c as (select * from {r1}), d as (select {c1} from c) select * from d", 1),
    ("select {c1} from {r1} where {c2} in (select {c2} from {r2})", 2),
    ("select coalesce({c1}, {c2}) as {c3}, case when {c1} > 0 then {c2} else 0 end as {c4} from {r1}", 1),
    ("select max({c1}) over (partition by {c2}) as {c3} from {r1}", 1),
    ("select 1 as {c1}, {c2} from {r1}", 1),
]

WRAPPERS = [
    "insert into {w} {body}",
    "insert into {w} ({c5}, {c6}) {body}",
    "create table {w} as {body}",
    "create view {w} as {body}",
    "{body}",
]

OTHER = [
    "insert into {w} values (1, 2)",
    "update {w} set {c1} = 1",
    "update {w} set {c1} = q.{c2} from {r1} q",
    "update {w} set {c1} = {c2}",
    "update {w} set {c1} = {c2} + {c3}, {c4} = 1",
    "drop table {w}",
    "alter table {r1} rename to {w}",
    "delete from {w}",
    "merge into {w} using {r1} on {w}.k = {r1}.k when matched then update set {c1} = {r1}.{c2}",
    "create table {w} ({c1} int, {c2} int)",
]


def gen_statement(r, tables=TABLES) -> str:
    f = dict(w=r.choice(tables), r1=r.choice(tables), r2=r.choice(tables),
             c1=r.choice(COLS), c2=r.choice(COLS), c3=r.choice(COLS), c4=r.choice(COLS),
             c5=r.choice(COLS), c6=r.choice(COLS))
    if r.random() < 0.22:
        return r.choice(OTHER).format(**f)
    body, _ = r.choice(SELECT_BODIES)
    wrap = r.choice(WRAPPERS)
    if "({c5}, {c6})" in wrap and ("*" in body or body.count(",") != 1 or "union" in body):
        wrap = "insert into {w} {body}"
    return wrap.format(body=body.format(**f), **f)


# names of mixed depth in which one schema string is a proper prefix of another (printed-name order differs from
# (schema, name) order), next to quoted schemas with punctuation
TABLES_MIXED = ["s.a.z", "s.b", "s.c.a", "s.d", "t.a.b", "t.b", "t", '"s-eu".a', "s0.a", "s.a", "db.s.a.q"[:6], "sa.b"]


def gen_mixed_depth(r, n):
    recs = []
    for _ in range(n):
        k = r.choice([1, 2, 2, 3])
        stmts = [gen_statement(r, TABLES_MIXED) for _ in range(k)]
        recs.append({"sql": ";\n".join(stmts), "dialect": "ansi", "silent": False, "metadata": None, "provider": "dummy", "config": {},
                     "origin": "generated-mixed-depth"})
    return recs


def gen_chain(r, n) -> list[str]:
    """later statements read earlier targets"""
    order = r.sample(TABLES, min(len(TABLES), n + 1))
    stmts = []
    for i in range(n):
        f = dict(w=order[i + 1], r1=order[i], r2=r.choice(order[:i + 1]),
                 c1=r.choice(COLS), c2=r.choice(COLS), c3=r.choice(COLS), c4=r.choice(COLS),
                 c5=r.choice(COLS), c6=r.choice(COLS))
        body, _ = r.choice(SELECT_BODIES)
        wrap = r.choice(WRAPPERS[:4])
        if "({c5}, {c6})" in wrap and ("*" in body or body.count(",") != 1 or "union" in body):
            wrap = "insert into {w} {body}"
        stmts.append(wrap.format(body=body.format(**f), **f))
    return stmts


def gen_metadata(r):
    md = {}
    for t in TABLES:
        if "." in t and r.random() < 0.6:
            md[t] = r.sample(COLS + ["m"], r.choice([1, 2, 3]))
    return md or None


def gen_records(r, n, multi=True):
    recs = []
    for i in range(n):
        k = r.choice([1, 1, 2, 2, 3, 4]) if multi else 1
        stmts = gen_chain(r, k) if r.random() < 0.5 else [gen_statement(r) for _ in range(k)]
        md = gen_metadata(r) if r.random() < 0.4 else None
        recs.append({"sql": ";\n".join(stmts), "dialect": "ansi", "silent": False, "metadata": md,
                     "provider": "dummy", "config": {}, "origin": "generated"})
    return recs


SPECIAL = [
    # a table that is written with column lineage but without reading any table, then dropped: it has columns, so it stays
    "insert into s.a select x.k from (select 1 as k) x;\ndrop table s.a",
    "create table s.a as with seed as (select 1 as k, 'x' as y) select k, y from seed;\ndrop table s.a",
    "update s.a set x = y;\ndrop table s.a",
    "create table s.a (k int);\ndrop table s.a",
    "insert into s.a select k from s.b;\ndrop table s.a;\ninsert into s.c select k from s.a",
    # a table written by a statement that reads nothing (target-only) and read by a later one through another column
    "update s.a set x = y;\ninsert into s.b select k from s.a",
    "update s.a set x = y + z;\ncreate table s.b as select * from s.a",
    "update s.a set x = y;\ninsert into s.b select k from s.a;\ninsert into s.c select k from s.b",
    "update t.a set x = z;\nselect k from t.a",
    # same derived-table alias in two union branches (K-C18-1)
    "insert into w select t.x from (select x from s.a) t union all select t.y from (select y from s.b) t",
    # same sub-query text under two aliases
    "insert into w select p.x, q.y from (select x, y from s.a) p join (select x, y from s.a) q on p.x = q.x",
    # self insert, 2-cycle
    "insert into s.a select x from s.a",
    "insert into s.a select x from s.b;\ninsert into s.b select x from s.a",
    # target column without source
    "insert into w (x, y) select k, 1 from s.a",
    # rename after column lineage
    "insert into s.b select * from s.a;\nalter table s.b rename to s.c",
    # unresolved columns of two statements with the same name
    "insert into w select k from s.a p join s.b q on p.x = q.x;\ninsert into s.d select k from s.c p join t.a q on p.x = q.x",
]


RENAME_TEMPLATES = [
    # the new name is already linked to the old one by table lineage (rebuild and swap)
    "create table {b} as select k, x from {a};\nalter table {b} rename to {a}",
    "insert into {b} select k from {a};\ninsert into {c} select k from {b};\nalter table {c} rename to {a}",
    # the renamed table feeds itself
    "insert into {a} select * from {a};\nalter table {a} rename to {b}",
    "insert into {a} select k from {a} p join {c} q on p.k = q.k;\nalter table {a} rename to {b}",
    # the renamed table was only read / only written so far
    "select * from {a};\nalter table {a} rename to {b}",
    "create table {a} (k int);\nalter table {a} rename to {b}",
    "insert into {a} values (1);\nalter table {a} rename to {b}",
    # ordinary: renamed target read later under its new name; rename onto a fresh name; rename of an intermediate table
    "insert into {b} select k from {a};\nalter table {b} rename to {c};\ninsert into {d} select k from {c}",
    "insert into {b} select k from {a};\ninsert into {c} select k from {b};\nalter table {b} rename to {d}",
    "alter table {a} rename to {b};\ninsert into {c} select k from {b}",
]


def rename_scripts(r, n=None):
    """scripts with ONE single-pair RENAME after other statements (the multi-pair form is K-C03-1)"""
    out = []
    for t in RENAME_TEMPLATES:
        for _ in range(1 if n is None else max(1, n // len(RENAME_TEMPLATES))):
            a, b, c, d = r.sample(["s.a", "s.b", "s.c", "s.d", "t.a", "w"], 4)
            out.append({"sql": t.format(a=a, b=b, c=c, d=d), "dialect": "ansi", "silent": False, "metadata": None, "provider": "dummy",
                        "config": {}, "origin": "rename-template"})
    return out
