"""C17 - the visualisation server only discloses files under its roots.

Proof obligations: coq/theories/Props/C17.v (model Web/PathModel.v).
Tie (suite T1): every enumerated request is sent to the real WSGI app (in process)
against a scratch directory tree with marker files outside the root, and the model's
decision / resolved path is evaluated inside Coq for the same request.
"""
from __future__ import annotations

import io
import itertools
import json
import os
from pathlib import Path

import logging

from common import Check, Scratch, coq_eval, coq_string, rng, tier, seed

logging.disable(logging.CRITICAL)

HEADER = "From SV Require Import Web.PathModel.\nOpen Scope string_scope."

MARK = "outside_marker"


def build_tree(d: Path):
    base = d / "base"
    (base / "root" / "sub" / "deep").mkdir(parents=True)
    (base / "root_sibling").mkdir()
    (base / "outside" / "sub").mkdir(parents=True)
    (base / "root" / "a.sql").write_text("insert into in_a select * from in_src_a")
    (base / "root" / "sub" / "b.sql").write_text("insert into in_b select * from in_src_b")
    (base / "root" / "sub" / "deep" / "c.sql").write_text("insert into in_c select * from in_src_c")
    (base / "root_sibling" / f"s_{MARK}.sql").write_text(f"insert into {MARK}_s select * from {MARK}_src")
    (base / "root_sibling" / "a.sql").write_text(f"insert into {MARK}_sa select * from {MARK}_src")
    (base / "outside" / f"o_{MARK}.sql").write_text(f"insert into {MARK}_o select * from {MARK}_src")
    (base / "outside" / "a.sql").write_text(f"insert into {MARK}_oa select * from {MARK}_src")
    (base / "outside" / "sub" / "b.sql").write_text(f"insert into {MARK}_ob select * from {MARK}_src")
    (base / f"top_{MARK}.sql").write_text(f"select * from {MARK}_top")
    (base / "a.sql").write_text(f"select * from {MARK}_basea")
    static = d / "static"
    (static / "js").mkdir(parents=True)
    (static / "index.html").write_text("<html>index</html>")
    (static / "manifest.json").write_text('{"name": "static-manifest"}')
    (static / "js" / "app.js").write_text("console.log('app')")
    (d / "static_sib").mkdir()
    (d / "static_sib" / "secret.txt").write_text(f"{MARK} secret")
    (d / f"secret_{MARK}.txt").write_text(f"{MARK} top secret")
    return base, static


class App:
    def __init__(self, root_path, static: Path):
        import sqllineage.drawing as drawing
        self.drawing = drawing
        drawing.STATIC_FOLDER = str(static)  # absolute: joinpath() then yields exactly this folder
        self.app = drawing.app
        self.app.root_path = root_path

    def request(self, method, path, body=None):
        got = {}

        def start_response(status, headers):
            got["status"] = int(status.split()[0])

        environ = {"REQUEST_METHOD": method, "PATH_INFO": path}
        if body is not None:
            raw = json.dumps(body).encode()
            environ["CONTENT_LENGTH"] = str(len(raw))
            environ["wsgi.input"] = io.BytesIO(raw)
        try:
            out = self.app(environ, start_response)
            return got.get("status"), b"".join(out)
        except BaseException as e:  # an escaping exception discloses nothing (the server answers 500)
            return 500, ("EXC:" + type(e).__name__).encode()


SEGS = ["..", ".", "sub", "deep", "root", "root_sibling", "outside", "a.sql", f"s_{MARK}.sql", "", "b.sql"]


def payload_paths(base: Path, quick: bool, r):
    """path spellings: up to n segments over SEGS, in relative and absolute forms"""
    out = []
    n_ex = 3 if quick else 4
    tails = []
    for n in range(0, n_ex + 1):
        for t in itertools.product(SEGS, repeat=n):
            tails.append("/".join(t))
    for _ in range(600 if quick else 6000):
        n = r.randint(n_ex + 1, 6)
        tails.append("/".join(r.choice(SEGS) for _ in range(n)))
    forms = [
        lambda t: "root/" + t if t else "root",
        lambda t: str(base) + "/root/" + t if t else str(base) + "/root",
        lambda t: t,
        lambda t: str(base) + "/" + t,
        lambda t: "/" + str(base) + "/root/" + t,         # leading //
        lambda t: "./root/./" + t,
    ]
    for i, t in enumerate(tails):
        if quick:
            # all forms for short tails, a rotating pair of forms for the others
            fs = forms if t.count("/") <= 1 else [forms[i % len(forms)], forms[(i + 1) % 2]]
        else:
            fs = forms
        for f in fs:
            out.append(f(t))
    # dedupe, keep order
    seen, res = set(), []
    for p in out:
        if p not in seen:
            seen.add(p)
            res.append(p)
    return res


def g_opt(s):
    return "None" if s is None else f"(Some {coq_string(s)})"


ALT_ROUTES = ["/directory/", "/script/", "/lineage/", "//directory", "/directory//", "/Directory", "/directory/.",
              "/api/directory", "/script/../directory", "directory", "/directory?f=1", "/script//"]


def main() -> int:
    ck = Check("C17")
    ck.assumptions += [
        "no symbolic links under the roots (the model's resolve is lexical; the implementation's Path.resolve() also follows links)",
        "WSGI server, sockets and HTTP parsing are not modelled: requests are delivered to the app callable in process",
    ]
    ck.trusted += [
        "hand-written Gallina model coq/theories/Web/PathModel.v of sqllineage/drawing.py path logic (pathlib parse/absolute/resolve/parent, is_relative_to), tied by suite T1 (this run)",
        "harness/c17.py (scratch tree, request enumeration, response classification)",
    ]
    proofs_ok = ck.proofs()
    r = rng("c17")
    quick = tier() == "quick"
    disagreements, spec_failures = [], []
    dist = {"post": 0, "get": 0, "status": {}, "model": {}}

    with Scratch() as d:
        d = Path(os.path.realpath(d))
        base, static = build_tree(d)
        old_cwd = os.getcwd()
        os.chdir(base)
        os.environ["SQLLINEAGE_DIRECTORY"] = str(base / "root")
        try:
            paths = payload_paths(base, quick, r)
            roots = [str(base / "root"), "root", str(base / "root" / "sub" / "..") + "/"]
            reqs = []   # (rootidx, route, f, d)
            for i, p in enumerate(paths):
                ri = i % len(roots)
                reqs.append((ri, "/script", p, None))
                reqs.append((ri, "/directory", p, None))
                reqs.append((ri, "/directory", None, p))
                if i % 3 == 0:
                    # both parameters: one legitimate, the other varied (either order of roles)
                    reqs.append((ri, "/script", p, str(base / "root" / "sub")))
                    reqs.append((ri, "/directory", p, "root/sub"))
                    reqs.append((ri, "/directory", "root/a.sql", p))
                    reqs.append((ri, "/directory", "", p))
                    reqs.append(((ri + 1) % len(roots), "/script", p, None))
                if i % (7 if quick else 2) == 0:
                    # route spellings that are not routes of the application (trailing / doubled slashes, case, query
                    # text, a prefix path): whatever the server does with them, it must disclose nothing (S), and
                    # the unchanged handler answers 404 (model: ROther)
                    alt = ALT_ROUTES[(i // 7) % len(ALT_ROUTES)] if quick else None
                    for rt_alt in ([alt] if quick else ALT_ROUTES):
                        reqs.append((ri, rt_alt, p, None))
                        reqs.append((ri, rt_alt, None, p))
                if i % (40 if quick else 8) == 0:
                    reqs.append((ri, "/lineage", p, None))
                    reqs.append((ri, "/lineage", p, "root"))
            reqs.append((0, "/script", None, None))
            reqs.append((0, "/directory", None, None))
            reqs.append((0, "/nope", "root/a.sql", None))
            route_g = {"/script": "RScript", "/lineage": "RLineage", "/directory": "RDirectory", "/nope": "ROther"}
            exprs = [
                f"show_post {coq_string(str(base))} {coq_string(roots[ri])} "
                f"{{| rt := {route_g.get(rt, 'ROther')}; pf := {g_opt(f)}; pd := {g_opt(dd)} |}}"
                for ri, rt, f, dd in reqs
            ]
            model = coq_eval(HEADER, exprs, shard=800)
            app = App(Path(roots[0]), static)
            real_root = os.path.realpath(base / "root")

            def inside(p):
                rp = os.path.realpath(p)
                return rp == real_root or rp.startswith(real_root + os.sep)

            for (ri, rt, f, dd), m in zip(reqs, model):
                app.app.root_path = Path(roots[ri])
                body = {}
                if f is not None:
                    body["f"] = f
                if dd is not None:
                    body["d"] = dd
                status, raw = app.request("POST", rt, body)
                ck.count()
                dist["post"] += 1
                dist["status"][status] = dist["status"].get(status, 0) + 1
                dist["model"][m[:6]] = dist["model"].get(m[:6], 0) + 1
                text = raw.decode("utf-8", "replace")
                case = {"root_path": roots[ri], "cwd": str(base), "route": rt, "payload": body,
                        "impl_status": status, "impl_body": text[:400], "model": m}
                # ---- S: the property itself, on the implementation ----
                if status == 200 and MARK in text:
                    case["spec"] = "a 200 response must not contain file content or directory entries from outside the root"
                    spec_failures.append(case)
                    continue
                # ---- I vs M ----
                if m == "403":
                    if status != 403:
                        disagreements.append(case)
                    continue
                if m == "404":
                    if status != 404:
                        disagreements.append(case)
                    continue
                if status == 403:
                    disagreements.append(case)
                    continue
                kind, mp = m[5:6], m[6:]
                if m == "PASS:DEFAULT":
                    kind, mp = "L", str(base / "root")
                if m == "PASS:NONE":
                    if status not in (200, 400):
                        disagreements.append(case)
                    continue
                ck.nontriv((rt, f, dd, roots[ri]))
                if not inside(mp):
                    # the model let a path outside the root through: the theorem excludes it
                    case["spec"] = "model resolved path outside root"
                    spec_failures.append(case)
                    continue
                if status == 200:
                    data = json.loads(text)
                    if kind == "F" and rt == "/script":
                        ok = os.path.isfile(mp) and data.get("content") == Path(mp).read_text()
                    elif kind == "F":
                        ok = os.path.isfile(mp) and "verbose" in data
                    else:
                        ok = os.path.isdir(mp) and sorted(c["name"] for c in data["children"]) == sorted(os.listdir(mp))
                    if not ok:
                        disagreements.append(case)
                else:
                    # not served: must be because the OS path does not lead to an object of the right type
                    target = f if kind == "F" else (str(Path(f).parent) if (f and rt == "/directory") else dd)
                    exists = os.path.isfile(target) if kind == "F" else os.path.isdir(target) if target else False
                    if exists and status not in (400,):
                        disagreements.append(case)
            ck.sample({"request": reqs[5], "model": model[5]})
            ck.sample({"request": reqs[len(reqs) // 2], "model": model[len(reqs) // 2]})

            # ---- histories: the root and the working directory change between requests of one application object ----
            # (Web/History.v: c17_history_contained; the real roots here are genuinely different directories)
            import re
            tok_re = re.compile(r"\b(in_[abc]|%s_(?!src)\w+)\b" % MARK)
            tok_file = {"in_a": base / "root" / "a.sql", "in_b": base / "root" / "sub" / "b.sql",
                        "in_c": base / "root" / "sub" / "deep" / "c.sql", f"{MARK}_s": base / "root_sibling" / f"s_{MARK}.sql",
                        f"{MARK}_sa": base / "root_sibling" / "a.sql", f"{MARK}_o": base / "outside" / f"o_{MARK}.sql",
                        f"{MARK}_oa": base / "outside" / "a.sql", f"{MARK}_ob": base / "outside" / "sub" / "b.sql",
                        f"{MARK}_top": base / f"top_{MARK}.sql", f"{MARK}_basea": base / "a.sql"}
            hroots = [str(base / "root"), str(base / "outside"), str(base / "root" / "sub"), str(base / "root_sibling"),
                      "root", "outside", "root/sub/../sub", "./root_sibling/", str(base)]
            hcwds = [str(base), str(base / "root"), str(base / "outside"), "..", "sub", "root"]
            hfiles = [str(v) for v in tok_file.values()] + ["root/a.sql", "a.sql", "sub/b.sql", "outside/a.sql", "../a.sql",
                      "root/../outside/a.sql", "root_sibling/a.sql", f"root_sibling/s_{MARK}.sql", "root/sub/deep/c.sql", "./a.sql",
                      "deep/c.sql", "../root/a.sql", "../outside/sub/b.sql"]
            hdirs = [str(base / "root"), str(base / "outside"), str(base / "root" / "sub"), str(base / "root_sibling"), str(base),
                     "root", "outside", ".", "..", "sub", "root/sub", "../outside", "deep", "root/..", "outside/sub"]
            n_hist = 150 if quick else 1500
            hists = []
            for _ in range(n_hist):
                ops = []
                for _ in range(r.randint(4, 10)):
                    k = r.random()
                    if k < 0.22:
                        ops.append(("root", r.choice(hroots)))
                    elif k < 0.32:
                        ops.append(("cwd", r.choice(hcwds)))
                    else:
                        rt = r.choice(["/script", "/script", "/directory", "/directory", "/lineage"])
                        if rt == "/directory" and r.random() < 0.6:
                            ops.append(("post", rt, None, r.choice(hdirs)))
                        else:
                            ops.append(("post", rt, r.choice(hfiles), r.choice(hdirs) if r.random() < 0.15 else None))
                hists.append(ops)

            def g_op(o):
                if o[0] == "root":
                    return f"WSetRoot {coq_string(o[1])}"
                if o[0] == "cwd":
                    return f"WChdir {coq_string(o[1])}"
                return f"WPost {{| rt := {route_g[o[1]]}; pf := {g_opt(o[2])}; pd := {g_opt(o[3])} |}}"

            hexprs = [f"show_history {coq_string(str(base))} {coq_string(hroots[0])} [{'; '.join(g_op(o) for o in ops)}]" for ops in hists]
            hmodel = coq_eval("From SV Require Import Web.PathModel Web.History.\nOpen Scope string_scope.", hexprs, shard=400)
            dist["history_requests"] = 0
            for ops, hm in zip(hists, hmodel):
                os.chdir(base)
                app.app.root_path = Path(hroots[0])
                answers = hm.split(";") if hm else []
                trace, ai = [], 0
                for o in ops:
                    if o[0] == "root":
                        app.app.root_path = Path(o[1])
                        trace.append(o)
                        continue
                    if o[0] == "cwd":
                        try:
                            os.chdir(o[1])
                        except OSError:
                            os.chdir(base)       # keep model and process in step: replay the model from here is not possible
                            trace.append(("cwd-failed", o[1]))
                            break
                        trace.append(o)
                        continue
                    _, rt, f, dd = o
                    m = answers[ai] if ai < len(answers) else "?"
                    ai += 1
                    body = {}
                    if f is not None:
                        body["f"] = f
                    if dd is not None:
                        body["d"] = dd
                    cur_root = os.path.realpath(str(app.app.root_path))
                    cwd_now = os.getcwd()
                    status, raw = app.request("POST", rt, body)
                    ck.count()
                    dist["history_requests"] += 1
                    text = raw.decode("utf-8", "replace")
                    trace.append(o)
                    case = {"suite": "history", "initial_root": hroots[0], "initial_cwd": str(base), "history_so_far": list(trace),
                            "root_in_force": cur_root, "cwd_in_force": cwd_now, "impl_status": status, "impl_body": text[:400], "model": m}

                    def inside_cur(pth):
                        rp = os.path.realpath(pth)
                        return rp == cur_root or rp.startswith(cur_root + os.sep)
                    # S on the implementation: nothing from outside the root IN FORCE may be disclosed
                    if status == 200:
                        bad = None
                        if rt in ("/script", "/lineage"):
                            for t in tok_re.findall(text):
                                if t in tok_file and not inside_cur(tok_file[t]):
                                    bad = f"content of {tok_file[t]} disclosed while the root is {cur_root}"
                        elif rt == "/directory":
                            try:
                                lid = json.loads(text).get("id")
                            except ValueError:
                                lid = None
                            if lid is not None and not inside_cur(os.path.join(cwd_now, lid)):
                                bad = f"listing of {lid} disclosed while the root is {cur_root}"
                        if bad:
                            case["spec"] = bad
                            spec_failures.append(case)
                            break
                    # I vs M
                    if m in ("403", "404"):
                        if status != int(m):
                            disagreements.append(case)
                            break
                        continue
                    if status == 403:
                        disagreements.append(case)
                        break
                    kind, mp = m[5:6], m[6:]
                    if kind in ("F", "L") and m.startswith("PASS:") and m not in ("PASS:DEFAULT", "PASS:NONE"):
                        ck.nontriv(("hist", rt, f, dd, cur_root, cwd_now))
                        if not inside_cur(mp):
                            case["spec"] = "model resolved path outside the root in force"
                            spec_failures.append(case)
                            break
                        if status == 200:
                            data = json.loads(text)
                            if kind == "F" and rt == "/script":
                                ok = os.path.isfile(mp) and data.get("content") == Path(mp).read_text()
                            elif kind == "F":
                                ok = os.path.isfile(mp) and "verbose" in data
                            else:
                                ok = os.path.isdir(mp) and sorted(c["name"] for c in data["children"]) == sorted(os.listdir(mp))
                            if not ok:
                                disagreements.append(case)
                                break
            os.chdir(base)
            app.app.root_path = Path(roots[0])

            # ---- overlapping requests on the same application object (a threaded server): while request 1 is reading its body,
            # request 2 is served completely.  Request 1 must get the answer it gets alone, and disclose nothing from outside.
            class HookedInput:
                def __init__(self, raw, hook):
                    self.raw, self.hook = raw, hook

                def read(self, n=-1):
                    self.hook()
                    return self.raw

            def overlapped(rt1, body1, req2):
                got = {}
                raw1 = json.dumps(body1).encode()
                env1 = {"REQUEST_METHOD": "POST", "PATH_INFO": rt1, "CONTENT_LENGTH": str(len(raw1)),
                        "wsgi.input": HookedInput(raw1, lambda: app.request(*req2))}
                try:
                    out = app.app(env1, lambda st, hd: got.__setitem__("status", int(st.split()[0])))
                    return got.get("status"), b"".join(out)
                except BaseException as e:      # noqa
                    return 500, ("EXC:" + type(e).__name__).encode()
            os.chdir(base)
            app.app.root_path = Path(str(base / "root"))
            real_root = os.path.realpath(base / "root")
            rootp = str(base / "root")
            firsts = []
            for pth in [rootp, rootp + "/", rootp + "/sub/..", "root", "root/.", rootp + "/a.sql", "root/sub/b.sql", rootp + "/sub", "root/sub/deep/..",
                        str(base), str(base / "outside"), str(base / "outside" / "a.sql"), "root/../outside/a.sql", str(base / "root_sibling" / "a.sql"), "."]:
                firsts += [("/directory", {"f": pth}), ("/directory", {"d": pth}), ("/script", {"f": pth}), ("/directory", {"f": pth, "d": rootp}),
                           ("/lineage", {"f": pth})]
            seconds = [("GET", "/"), ("GET", "/no-such-asset.js"), ("POST", "/script", {"f": rootp + "/a.sql"}), ("POST", "/directory", {"d": rootp}),
                       ("POST", "/nope", {"f": rootp}), ("POST", "/lineage", {"e": "select 1"}), ("GET", "/index.html")]
            dist["overlapped_requests"] = 0
            for rt1, b1 in firsts:
                alone = app.request("POST", rt1, b1)
                for r2 in (seconds if not quick else seconds[:: 2] + seconds[1:2]):
                    st, raw = overlapped(rt1, b1, r2)
                    ck.count()
                    dist["overlapped_requests"] += 1
                    text = raw.decode("utf-8", "replace")
                    case = {"suite": "overlapped-requests", "root_path": rootp, "request": {"route": rt1, "payload": b1},
                            "request_served_while_its_body_was_read": list(r2), "answer_alone": [alone[0], alone[1].decode("utf-8", "replace")[:300]],
                            "answer_overlapped": [st, text[:300]]}
                    leak = st == 200 and (MARK in text or (rt1 == "/directory" and (lambda j: j is not None and not (os.path.realpath(os.path.join(str(base), j)) + os.sep).startswith(real_root + os.sep))((json.loads(text) or {}).get("id") if text.startswith("{") else None)))
                    if leak:
                        case["spec"] = "a request served while another one is in progress must not disclose anything outside the root"
                        spec_failures.append(case)
                    elif (st, raw) != alone:
                        case["spec"] = "the answer to a request does not depend on requests served concurrently by the same application object"
                        spec_failures.append(case)

            # ---- GET ----
            gsegs = ["..", ".", "js", "app.js", "index.html", "manifest.json", "", "static_sib", "secret.txt", "...", "a..b"]
            pinfos = ["/"]
            for n in range(1, (3 if quick else 4) + 1):
                for t in itertools.product(gsegs, repeat=n):
                    pinfos.append("/" + "/".join(t))
                    if n <= 2:
                        pinfos.append("/".join(t))
                        pinfos.append("//" + "/".join(t) + "/")
            # absolute spellings of files outside (and inside) the static folder, behind 1-3 leading slashes
            outside_abs = [str(static.parent / "static_sib" / "secret.txt"), str(static.parent / f"secret_{MARK}.txt"),
                           str(static / "index.html"), str(static / "js" / "app.js"), str(static.parent / "static_sib")]
            for a in outside_abs:
                for pre in ("", "/", "//", "/.", "/./", "/js/..", "/js/../.."):
                    for suf in ("", "/", "/."):
                        pinfos.append(pre + a + suf)
                pinfos.append("//" + a.lstrip("/").replace("/", "//"))
                pinfos.append("//" + a.lstrip("/").replace("/", "/./"))
            pinfos = list(dict.fromkeys(pinfos))
            gm = coq_eval(HEADER, [f"show_get {coq_string(str(static))} {coq_string(p)}" for p in pinfos], shard=800)
            for p, m in zip(pinfos, gm):
                status, raw = app.request("GET", p)
                ck.count()
                dist["get"] += 1
                text = raw.decode("utf-8", "replace")
                case = {"method": "GET", "path_info": p, "impl_status": status, "impl_body": text[:200], "model": m}
                if status == 200 and MARK in text:
                    case["spec"] = "GET must not serve content from outside the static folder"
                    spec_failures.append(case)
                    continue
                if m == "INDEX":
                    if status != 200 or text != (static / "index.html").read_text():
                        disagreements.append(case)
                elif m == "404":
                    if status != 404:
                        disagreements.append(case)
                else:
                    mp = m[5:]
                    if not (mp == str(static) or mp.startswith(str(static) + "/")):
                        case["spec"] = "model served path outside static"
                        spec_failures.append(case)
                        continue
                    ck.nontriv(("get", p))
                    if os.path.isfile(mp):
                        if status != 200 or text != Path(mp).read_text():
                            disagreements.append(case)
                    else:
                        if status != 404:
                            disagreements.append(case)
        finally:
            os.chdir(old_cwd)

    ck.notes["input_distribution"] = dist
    ck.coverage["disagreements_checked"] = len(disagreements)
    replay_hint = "cd /verif && VERIF_SEED=%d ./check C17 --tier %s" % (seed(), tier())
    if spec_failures:
        c = spec_failures[0]
        c["how_to_replay"] = replay_hint
        c["all_failures"] = len(spec_failures)
        ck.violation(c, "spec")
    elif disagreements:
        c = disagreements[0]
        c["broken"] = "correspondence T1 between Web.PathModel (theorems c17_post_contained, c17_get_contained) and sqllineage/drawing.py"
        c["all_disagreements"] = len(disagreements)
        c["search"] = "the containment oracle (no outside marker in any 200 response) ran on every request of this run and found no failing input"
        ck.violation(c, "tie", no_input=True)
    if not proofs_ok:
        ck.violation({"broken": "proof obligations of Props/C17.v", "detail": ck.broken_obligation},
                     "proof", no_input=not spec_failures)
    return ck.finish(
        rule="POST: every path of up to %d segments over an %d-segment alphabet (incl. '..', '.', empty, sibling with common prefix, "
             "outside dir, file-as-directory) in 6 relative/absolute spellings x {/script f, /directory f, /directory d, d+f combinations, "
             "/lineage sample} x 3 root settings, plus seeded longer paths; GET: every PATH_INFO of up to %d segments over 11 segments; "
             "non-trivial = request that passes the root check (or GET that reaches the filesystem)" % (3 if quick else 4, len(SEGS), 3 if quick else 4),
        extra={"exhaustive": False})


if __name__ == "__main__":
    raise SystemExit(main())
