"""C03 - script summary roles follow from per-statement reads and writes.

Proof obligations: coq/theories/Props/C03.v (model Holder/TableLevel.v).
Tie: T1 = every history of abstract statements built through the public holder
API and assembled by SQLLineageHolder.of; T4 = generated SQL scripts analysed by
LineageRunner, each statement holder (statement tap) abstracted and fed to the model.
"""
from __future__ import annotations

import itertools
import warnings

from common import Check, coq_eval, coq_string, rng, tier, seed
from implgraph import StatementTap, abstract_holder, g_astmts, g_holder, show_roles, dkey

from sqllineage.core.holders import SQLLineageHolder, StatementLineageHolder
from sqllineage.core.metadata.dummy import DummyMetaDataProvider
from sqllineage.core.models import Path, Table
from sqllineage.runner import LineageRunner

warnings.filterwarnings("ignore")
HEADER = "From SV Require Import Holder.TableLevel.\nOpen Scope string_scope."
U = ["s.a", "s.b", "s.c"]


def stmt_kinds():
    kinds = []
    for n in range(0, 4):
        for rs in itertools.combinations(U, n):
            for w in [None] + U:
                kinds.append(("rw", rs, w))
    for t in U:
        kinds.append(("drop", t))
    for x in U:
        for y in U:
            if x != y:
                kinds.append(("rename", x, y))
    return kinds


def make_holder(k) -> StatementLineageHolder:
    h = StatementLineageHolder()
    if k[0] == "rw":
        for r in k[1]:
            h.add_read(Table(r))
        if k[2] is not None:
            h.add_write(Table(k[2]))
    elif k[0] == "drop":
        h.add_drop(Table(k[1]))
    elif k[0] == "rename":
        h.add_rename(Table(k[1]), Table(k[2]))
    elif k[0] == "rwp":      # with a Path dataset and an unwired read (node tagged read without alias edge)
        for r in k[1]:
            h.add_read(Path(r))
        if k[2] is not None:
            h.add_write(Table(k[2]))
    elif k[0] == "multi_rename":
        for x, y in k[1]:
            h.add_rename(Table(x), Table(y))
    return h


def impl_build(holders):
    try:
        sh = SQLLineageHolder.of(DummyMetaDataProvider(), *holders)
        return show_roles(sh)
    except Exception as e:
        return "ERR:" + type(e).__name__


# ---- T4: SQL scripts ------------------------------------------------------
TEMPLATES = [
    ("insert into {w} select * from {r1}", 1),
    ("insert into {w} select x.k from {r1} x join {r2} y on x.k = y.k", 2),
    ("insert into {w} select k from {r1} where k in (select k from {r2})", 2),
    ("create table {w} as select k, v from {r1}", 1),
    ("create view {w} as select * from {r1} union all select * from {r2}", 2),
    ("insert into {w} with c as (select * from {r1}) select * from c", 1),
    ("select * from {r1}", 1),
    ("select k from {r1} union all select k from {r2}", 2),
    ("(select k, v from {r1})", 1),
    ("select a.k from {r1} a, {r2} b", 2),
    ("insert into {w} values (1, 2)", 0),
    ("create table {w} (k int)", 0),
    ("update {w} set k = 1", 0),
    ("update {w} set k = v", 0),
    ("update {w} set k = t.k from {r1} t", 1),
    ("insert into {w} select * from {w}", 0),
    ("drop table {w}", 0),
    ("drop table if exists {w}", 0),
    ("alter table {r1} rename to {w}", 1),
    ("delete from {w}", 0),
    ("truncate table {w}", 0),
    ("merge into {w} using {r1} on {w}.k = {r1}.k when matched then update set v = {r1}.v", 1),
]
TABLES = ["s.a", "s.b", "s.c", "t.a", "d"]


def gen_script(r, n):
    stmts = []
    for _ in range(n):
        if stmts and r.random() < 0.2:
            stmts.append(r.choice(stmts))        # the same statement again, verbatim
            continue
        tpl, _nr = r.choice(TEMPLATES)
        w = r.choice(TABLES)
        r1 = r.choice(TABLES)
        r2 = r.choice(TABLES)
        stmts.append(tpl.format(w=w, r1=r1, r2=r2))
    return stmts


def is_plain(a):
    return not a["drops"] and not a["renames"]


def main() -> int:
    ck = Check("C03")
    ck.assumptions += [
        "a statement holder is abstracted to (dataset nodes, read, write, drop, rename pairs in the implementation's iteration order, datasets with a non-dataset neighbour); the abstraction function is harness code",
        "holder graphs of non-RENAME statements contain no dataset->dataset edge (checked on every holder of this run)",
    ]
    ck.trusted += [
        "hand-written Gallina model coq/theories/Holder/TableLevel.v of SQLLineageHolder._build_digraph + role accessors at dataset level, tied by suites T1/T4 (this run)",
        "harness/c03.py, harness/implgraph.py",
    ]
    proofs_ok = ck.proofs()
    r = rng("c03")
    quick = tier() == "quick"
    disagreements, spec_failures = [], []
    dist = {"t1_histories": 0, "t1_with_drop": 0, "t1_with_rename": 0, "t1_plain": 0, "t1_errors": 0,
            "t4_scripts": 0, "t4_statement_kinds": {}, "t4_failed_to_analyse": 0}
    known = {f["id"]: f for f in __import__("common").load_known() if f["property"] == "C03" and f["status"] == "known"}

    # ---- T1 -----------------------------------------------------------------
    kinds = stmt_kinds()
    hists = [[k] for k in kinds]
    hists += [list(p) for p in itertools.product(kinds, repeat=2)]
    if quick:
        hists += [[r.choice(kinds) for _ in range(3)] for _ in range(6000)]
        hists += [[r.choice(kinds) for _ in range(r.randint(4, 6))] for _ in range(1500)]
    else:
        hists += [list(p) for p in itertools.product(kinds, repeat=3)]
        hists += [[r.choice(kinds) for _ in range(r.randint(4, 7))] for _ in range(30000)]
    extra = [("rwp", ("/data/x.csv",), "s.a"), ("rwp", ("/data/x.csv", "s3://b/y"), None),
             ("multi_rename", (("s.a", "s.b"), ("s.b", "s.c"))), ("multi_rename", (("s.a", "s.c"), ("s.b", "s.c"))),
             ("multi_rename", (("s.a", "s.b"), ("s.c", "s.a")))]
    for e in extra:
        for k in r.sample(kinds, 25):
            hists.append([k, e])
            hists.append([e, k])
            hists.append([k, e, r.choice(kinds)])

    rows = []
    shared_diff = 0
    for h in hists:
        holders = [make_holder(k) for k in h]
        abst = [abstract_holder(x) for x in holders]
        res = impl_build(holders)
        rows.append((h, abst, res))
        if len(set(h)) < len(h):
            # a statement repeated in the history, handed over as the very same holder object (what a caller that
            # caches analysed statements does): the assembly must treat it like a fresh, equal holder
            by_kind = {}
            same = [by_kind.setdefault(k, x) for k, x in zip(h, holders)]
            ck.count()
            res2 = impl_build(same)
            if res2 != res:
                shared_diff += 1
                spec_failures.append({"suite": "T1-repeated-holder-object", "history": h, "distinct_objects": res, "same_object": res2,
                                      "spec": "a statement that occurs again in the script counts again (after a DROP or RENAME it re-creates its lineage), "
                                              "whether or not the caller hands over the same holder object"})
    dist["t1_repeated_object_diffs"] = shared_diff
    model = coq_eval(HEADER, [f"show_build {g_astmts(a)}" for _, a, _ in rows], shard=600)
    plain_rows = [(i, rw) for i, rw in enumerate(rows) if all(is_plain(a) for a in rw[1])]
    spec = dict(zip([i for i, _ in plain_rows],
                    coq_eval(HEADER, [f"show_spec {g_astmts(rw[1])}" for _, rw in plain_rows], shard=600)))
    for i, ((h, abst, impl), m) in enumerate(zip(rows, model)):
        ck.count()
        dist["t1_histories"] += 1
        has_drop = any(a["drops"] for a in abst)
        has_ren = any(a["renames"] for a in abst)
        dist["t1_with_drop"] += has_drop
        dist["t1_with_rename"] += has_ren
        dist["t1_plain"] += (i in spec)
        dist["t1_errors"] += impl.startswith("ERR")
        if "E=" in impl and "E=;" not in impl:
            ck.nontriv(("t1", repr(h)))
        case = {"suite": "T1-abstract-histories", "history": h, "abstract": abst, "impl": impl, "model": m}
        multi = any(len(a["renames"]) > 1 for a in abst)
        if i in spec and impl != spec[i]:
            case["spec"] = spec[i]
            spec_failures.append(case)
        elif impl != m:
            if multi:
                # K-C03-1: a statement with several RENAME pairs is iterated in set order; the model was
                # given the order the implementation used, so a disagreement here is still a tie break
                pass
            disagreements.append(case)
        if impl.startswith("ERR") and not multi:
            case["spec"] = "no error expected"
            spec_failures.append(case)
    ck.sample({"history": rows[200][0], "impl": rows[200][2]})

    # ---- S for DROP / RENAME clauses, directly on the implementation --------------
    def roles_map(s):
        parts = dict(p.split("=", 1) for p in s.split(";"))
        return {k: set(filter(None, v.split(","))) for k, v in parts.items()}

    checked_dr = 0
    for h, abst, impl in r.sample(rows, min(len(rows), 4000 if quick else 20000)):
        if impl.startswith("ERR") or any(a["renames"] for a in abst):
            continue
        for pos, k in enumerate(h):
            if k[0] != "drop":
                continue
            t = "T:" + k[1]
            without = impl_build([make_holder(x) for j, x in enumerate(h) if j != pos])
            if without.startswith("ERR"):
                continue
            a, b = roles_map(impl), roles_map(without)
            checked_dr += 1
            ck.count()
            for role in ("S", "T", "I"):
                if a[role] - {t} != b[role] - {t}:
                    spec_failures.append({"suite": "T1-drop-does-not-disturb", "history": h, "dropped": t, "position": pos,
                                          "with_drop": impl, "without_drop": without,
                                          "spec": "DROP t never changes the role of another table"})
            ea = {e for e in a["E"] if t not in e.split(">")}
            eb = {e for e in b["E"] if t not in e.split(">")}
            if ea != eb or (a["N"] - {t}) != (b["N"] - {t}):
                spec_failures.append({"suite": "T1-drop-does-not-disturb", "history": h, "dropped": t,
                                      "with_drop": impl, "without_drop": without,
                                      "spec": "DROP t never changes edges or presence of other tables"})
            # removed only if nothing was read from it / wired to it before the DROP
            prefix = h[:pos]
            touched = any((x[0] == "rw" and (k[1] in x[1] or (x[2] == k[1] and x[1]))) for x in prefix)
            after_prefix_drop = roles_map(impl_build([make_holder(x) for x in h[:pos + 1]]))
            if touched and t not in after_prefix_drop["N"]:
                spec_failures.append({"suite": "T1-drop-keeps-wired", "history": h[:pos + 1],
                                      "spec": "DROP must not remove a table that was read or wired"})
    dist["drop_clauses_checked"] = checked_dr
    checked_rn = 0
    for h, abst, impl in rows:
        if len(h) < 2 or h[-1][0] != "rename" or any(k[0] != "rw" for k in h[:-1]):
            continue
        x, y = h[-1][1], h[-1][2]
        pre = h[:-1]
        if any(y in k[1] or k[2] == y for k in pre):
            continue   # y must be fresh
        if any((x in k[1] and k[2] is None) or (k[2] == x and not k[1]) or (x in k[1] and k[2] == x) for k in pre):
            continue   # x tagged source-only/target-only or self-loop: outside the clause
        before = impl_build([make_holder(k) for k in pre])
        if before.startswith("ERR") or impl.startswith("ERR"):
            spec_failures.append({"suite": "T1-rename-single", "history": h, "impl": impl, "spec": "no error"})
            continue
        a, b = roles_map(impl), roles_map(before)
        tx, ty = "T:" + x, "T:" + y
        if tx not in b["N"]:
            continue
        checked_rn += 1
        ck.count()
        ren = lambda s: {ty if e == tx else e for e in s}
        rene = lambda s: {">".join(ty if p == tx else p for p in e.split(">")) for e in s}
        isolated_x = not any(tx in e.split(">") for e in b["E"]) and not any(x in k[1] for k in pre)
        exp_n = ren(b["N"]) - ({ty} if isolated_x else set())
        if a["N"] != exp_n or a["E"] != rene(b["E"]) or any(a[role] != ren(b[role]) - ({ty} if isolated_x else set()) for role in "STI"):
            spec_failures.append({"suite": "T1-rename-single", "history": h, "before": before, "after": impl,
                                  "spec": "RENAME x TO y (x untagged, y fresh) puts y exactly in x's place"})
    dist["rename_clauses_checked"] = checked_rn

    # ---- T4: SQL scripts ---------------------------------------------------------
    n_scripts = 700 if quick else 6000
    scripts = [gen_script(r, r.choice([1, 2, 2, 3, 3, 4, 5])) for _ in range(n_scripts)]
    t4, gal4 = [], []
    alone_cache = {}
    for stmts in scripts:
        sql = ";\n".join(stmts)
        with StatementTap() as tap:
            try:
                lr = LineageRunner(sql, dialect="ansi")
                lr._eval()
                impl = show_roles(lr._sql_holder)
            except Exception as e:
                impl = "ERR:" + type(e).__name__
        if impl.startswith("ERR") and len(tap.items) < len(stmts):
            dist["t4_failed_to_analyse"] += 1
            continue
        hs_ = [h for _, h in tap.of_runner(lr)]
        abst = [abstract_holder(h) for h in hs_]
        # the same statements analysed ON THEIR OWN (no metadata: statements are independent): what each statement reads and
        # writes must not depend on the statements before it in the script
        alone = []
        for st_ in stmts:
            if st_ not in alone_cache:
                with StatementTap() as tap1:
                    try:
                        lr1 = LineageRunner(st_, dialect="ansi")
                        lr1._eval()
                        hh = [h for _, h in tap1.of_runner(lr1)]
                        alone_cache[st_] = abstract_holder(hh[0]) if len(hh) == 1 else None
                    except Exception:      # noqa
                        alone_cache[st_] = None
            alone.append(alone_cache[st_])
        if all(x is not None for x in alone) and len(alone) == len(abst) and alone != abst:
            k_ = next(j for j in range(len(abst)) if alone[j] != abst[j])
            spec_failures.append({"suite": "T4-statement-in-script-vs-alone", "script": stmts, "statement_index": k_,
                                  "holder_in_script": abst[k_], "holder_on_its_own": alone[k_],
                                  "spec": "the reads and writes of a statement (from which the script's edges and roles follow) do not depend on the statements before it"})
        t4.append((stmts, abst, impl))
        gal4.append("[%s]" % "; ".join(g_holder(h) for h in hs_))
    model4 = coq_eval(HEADER, [f"show_build {g_astmts(a)}" for _, a, _ in t4], shard=300)
    # refinement (Holder/Refinement.v): its hypothesis wf_holder is evaluated on the implementation's own holders, and the
    # abstraction defined and proved in Coq (abs_holder) must lead the abstract model to the same answer as the harness's
    RH = "From SV Require Import Holder.Refinement.\nOpen Scope string_scope."
    ref4 = coq_eval(RH, ["((if forallb wf_holder %s then \"wf\" else \"NOT-WF\") ++ \"|\" ++ T.show_build (map abs_holder %s))%%string" % (g, g)
                         for g in gal4], shard=150)
    plain4 = [i for i, x in enumerate(t4) if all(is_plain(a) for a in x[1])]
    spec4 = dict(zip(plain4, coq_eval(HEADER, [f"show_spec {g_astmts(t4[i][1])}" for i in plain4], shard=300)))
    for i, ((stmts, abst, impl), m) in enumerate(zip(t4, model4)):
        ck.count()
        dist["t4_scripts"] += 1
        for s in stmts:
            kw = s.split()[0]
            dist["t4_statement_kinds"][kw] = dist["t4_statement_kinds"].get(kw, 0) + 1
        if "E=" in impl and "E=;" not in impl:
            ck.nontriv(("t4", tuple(stmts)))
        case = {"suite": "T4-sql-scripts", "script": stmts, "dialect": "ansi", "abstract": abst, "impl": impl, "model": m}
        wf_flag, _, coq_abs_build = ref4[i].partition("|")
        dist["t4_wf_holders"] = dist.get("t4_wf_holders", 0) + (wf_flag == "wf")
        if wf_flag != "wf" and not impl.startswith("ERR"):
            case["spec"] = "a real holder violates wf_holder, the hypothesis of the refinement theorem c03_full_model_refines"
            disagreements.append(case)
        elif coq_abs_build != m and wf_flag == "wf":
            case["coq_abstraction_result"] = coq_abs_build
            case["spec"] = "abs_holder (Coq, proved) and the harness's abstraction of the same holders lead the abstract model to different results"
            disagreements.append(case)
        if any(a["foreign_edges"] for a in abst if not a["renames"]):
            case["spec"] = "holder of a non-RENAME statement has a dataset->dataset edge (model assumption violated)"
            disagreements.append(case)
        elif i in spec4 and impl != spec4[i]:
            case["spec"] = spec4[i]
            spec_failures.append(case)
        elif impl != m:
            disagreements.append(case)
    if t4:
        ck.sample({"script": t4[0][0], "impl": t4[0][2]})

    # ---- known finding K-C03-1 (chained multi-pair RENAME): replay the witness ----
    # a RENAME statement with the chain a->b, b->c: the result depends on the order in which the
    # set of pairs is iterated; one order raises NetworkXError
    def chained(order):
        hs = [make_holder(("rw", ("s.z",), "s.a"))]
        rn = StatementLineageHolder()
        for x, y in order:
            rn.add_rename(Table(x), Table(y))
        return hs, rn
    outs = set()
    for order in ([("s.a", "s.b"), ("s.b", "s.c")], [("s.b", "s.c"), ("s.a", "s.b")]):
        hs, rn = chained(order)
        # force the iteration order by monkeypatching the property for this holder only
        g = rn.graph
        class Ordered(StatementLineageHolder):
            @property
            def rename(self_inner):
                return [(Table(x), Table(y)) for x, y in order]
        oh = Ordered()
        oh.graph = g
        outs.add(impl_build(hs + [oh]))
    if len(outs) > 1:
        ck.known("K-C03-1", "a RENAME statement with chained pairs (a TO b, b TO c) gives %s depending on the iteration "
                            "order of the set of pairs (holders.py _build_digraph)" % sorted(outs))
    ck.notes["k_c03_1_outcomes"] = sorted(outs)

    # ---- S4: roles of generated SQL scripts against the roles computed, by the property's definition, from the SPECIFIED reads and
    # writes of the statements (Tree/ScriptRoles.v spec_sources / spec_targets / spec_intermediates, evaluated in Coq together
    # with the guard of c03_script_roles_exact_on_lemma_A_fragment); statements of the whole Lemma-A fragment
    import astgen
    import t2tie as _t2
    rr = rng("c03-roles")
    pool0 = astgen.gen_batch(rr, 500 if quick else 5000, (0, 1, 2, 2), shapes=60 if quick else None)
    inside = coq_eval("From SV Require Import Ast.Spec Tree.LemmaA Tree.LemmaAProofs Tree.ScriptRoles.\nOpen Scope string_scope.",
                      ["if lemA_ok %s then \"1\" else \"0\"" % astgen.g_stmt(x) for x in pool0], shard=250)
    pool = [x for x, f in zip(pool0, inside) if f == "1"]

    def trefs(x, acc):
        if isinstance(x, tuple):
            if len(x) == 3 and x[0] == "table":
                acc.append(x[1])
            for y in x:
                trefs(y, acc)
        elif isinstance(x, list):
            for y in x:
                trefs(y, acc)
        return acc
    scripts4 = []
    for _ in range(110 if quick else 1500):
        ss = [rr.choice(pool) for _ in range(rr.choice([1, 2, 3, 3, 4]))]
        read = trefs(ss, [])
        out = []
        for st in ss:
            # let statements write tables that other statements read, so that intermediates and cycles arise
            if st[0] in ("insert", "ctas", "view") and read and rr.random() < 0.6:
                st = (st[0], rr.choice(read)) + tuple(st[2:])
            out.append(st)
        scripts4.append(out)
    ex4 = []
    for ss in scripts4:
        gl = "; ".join(astgen.g_stmt(x) for x in ss)
        ex4.append("(if forallb lemA_ok [%s] then \"in:\" else \"out:\") ++ \"R=\" ++ join \",\" (spec_sources \"\" [%s]) ++ \";W=\" ++ "
                   "join \",\" (spec_targets \"\" [%s]) ++ \";I=\" ++ join \",\" (spec_intermediates \"\" [%s])" % (gl, gl, gl, gl))
    sp4 = coq_eval("From SV Require Import Ast.Spec Tree.LemmaA Tree.LemmaAProofs Tree.ScriptRoles.\nOpen Scope string_scope.", ex4, shard=120)
    im4 = _t2.summaries([{"sql": "\n".join(astgen.to_sql(x) for x in ss), "dialect": "ansi", "metadata": None, "config": {}} for ss in scripts4])
    dist["s4_sql_scripts"] = {"scripts": len(scripts4), "inside_guard": 0, "with_intermediate": 0}
    for ss, sp, im in zip(scripts4, sp4, im4):
        ck.count()
        if not sp.startswith("in:") or im.startswith("ERR"):
            continue
        dist["s4_sql_scripts"]["inside_guard"] += 1
        exp = sp[3:]
        got = im.split("#", 1)[0]
        if ";I=" not in got:
            got += ";I="
        dist["s4_sql_scripts"]["with_intermediate"] += not exp.endswith(";I=")
        ck.nontriv(("sql-script-roles", got))
        if got != exp:
            spec_failures.append({"suite": "S4-script-roles-vs-specification", "sql": "\n".join(astgen.to_sql(x) for x in ss), "impl_roles": got, "spec_roles": exp,
                                  "spec": "source / target / intermediate tables follow from the statements' reads and writes by the property's definition "
                                          "(theorem c03_script_roles_exact_on_lemma_A_fragment)"})

    # ---- verdict ------------------------------------------------------------------
    ck.notes["input_distribution"] = dist
    ck.coverage["disagreements_checked"] = len(disagreements)
    hint = "cd /verif && VERIF_SEED=%d ./check C03 --tier %s" % (seed(), tier())
    if spec_failures:
        c = spec_failures[0]
        c["how_to_replay"] = hint
        c["all_failures"] = len(spec_failures)
        ck.violation(c, "spec")
    elif disagreements:
        c = disagreements[0]
        c["broken"] = "correspondence T1/T4 between Holder.TableLevel (theorems c03_*) and sqllineage/core/holders.py"
        c["all_disagreements"] = len(disagreements)
        c["search"] = "the role classification of the property was evaluated on every plain history/script of this run and DROP/RENAME clauses on the implementation; no failing input"
        ck.violation(c, "tie", no_input=True)
    if not proofs_ok:
        ck.violation({"broken": "proof obligations of Props/C03.v", "detail": ck.broken_obligation}, "proof",
                     no_input=not spec_failures)
    return ck.finish(
        rule="T1: all histories of <=%s abstract statements (any read-set x at most one write over 3 tables, DROP t, RENAME x TO y: %d kinds) "
             "+ seeded longer ones + Path datasets and multi-pair RENAMEs, built through add_read/add_write/add_drop/add_rename; "
             "T4: %d generated SQL scripts (19 statement templates, 5 tables, 1-5 statements, ansi); non-trivial = result has >=1 table edge"
             % ("2 (+6000 of length 3)" if quick else "3", len(kinds), n_scripts))


if __name__ == "__main__":
    raise SystemExit(main())
