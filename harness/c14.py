"""C14 - a default schema equals explicit qualification.

Proof obligations: coq/theories/Props/C14.v.  S (on the implementation): analysing a statement with default
schema S (scoped override, and environment variable in a fresh process) gives the same tables and column pairs
as analysing it with every unqualified table name written S.name; both equal the specification evaluated with
default schema S.  Tie: tree model with e_cfg = S on the parser's trees."""
from __future__ import annotations

import json
import os
import subprocess
import sys

import astgen
import sqltie
import t2tie
from common import Check, impl_env, load_known, rng, tier

HELPER = r'''
import json, sys, warnings
warnings.filterwarnings("ignore")
sys.path.insert(0, "/verif/harness")
import t2tie
recs = json.load(sys.stdin)
print(json.dumps([t2tie._summary_only(r) for r in recs]))
'''


def env_summaries(recs, schema):
    p = subprocess.run(["/venv/bin/python", "-W", "ignore", "-c", HELPER], input=json.dumps(recs), capture_output=True, text=True,
                       env=impl_env(0, {"SQLLINEAGE_DEFAULT_SCHEMA": schema, "PYTHONPATH": os.environ.get("VERIF_REPO", "/repo") + ":/verif/harness"}))
    if p.returncode != 0:
        raise RuntimeError(p.stderr[-2000:])
    return json.loads(p.stdout.strip().splitlines()[-1])


def main() -> int:
    ck = Check("C14")
    ck.assumptions += ["only table names are qualified by the rewrite; column qualifiers that name an unqualified table keep their spelling (they resolve through the alias map either way)"]
    ck.trusted += ["specification Ast/Spec.v with a default-schema parameter; tree model Tree/*.v with e_cfg / e_icfg, tied by suite T2 under a default schema (this run)", "harness/c14.py"]
    proofs_ok = ck.proofs()
    quick = tier() == "quick"
    r = rng("c14")
    spec_failures, disagreements = [], []
    dist = {"statements": 0, "schemas": [], "mechanisms": {"scoped": 0, "environment": 0}, "quoted_dotted": 0}
    n = 110 if quick else 2000
    stmts = astgen.gen_batch(r, n, (0, 1, 2), shapes=30 if quick else 300)
    for S in ("dflt", "s1"):
        dist["schemas"].append(S)
        spec = sqltie.spec_strings(stmts, ds=S)
        plain = sqltie.records(stmts)
        qual = sqltie.records(stmts, opts=astgen.Opts(qualify=S))
        # a qualified name spelled as ONE quoted identifier containing the dot must not be affected by the default
        def dq(sql):
            return sql.replace("s1.t1", '"s1.t1"').replace("s2.t3", '"s2.t3"')
        plain_q = [dict(x, sql=dq(x["sql"])) for x in plain]
        qual_q = [dict(x, sql=dq(x["sql"])) for x in qual]
        scoped = t2tie.summaries([dict(x, config={"DEFAULT_SCHEMA": S}) for x in plain + plain_q])
        explicit = t2tie.summaries(qual + qual_q)
        envm = env_summaries(plain + plain_q, S)
        recs2 = plain + plain_q
        for j, (a, b, e) in enumerate(zip(scoped, explicit, envm)):
            i = j % n
            ck.count()
            dist["statements"] += 1
            dist["mechanisms"]["scoped"] += 1
            dist["mechanisms"]["environment"] += 1
            dist["quoted_dotted"] += j >= n and '"s1.t1"' in recs2[j]["sql"]
            if a.startswith("ERR:InvalidSyntax"):
                continue
            if "R=;W=" != a.split("#")[0]:
                ck.nontriv((S, recs2[j]["sql"]))
            case = {"default_schema": S, "sql": recs2[j]["sql"], "qualified_sql": (qual + qual_q)[j]["sql"]}
            if a != b:
                spec_failures.append(dict(case, suite="scoped-vs-explicit", with_default_schema=a, explicitly_qualified=b,
                                          spec="default schema S gives the same result as writing every unqualified table name as S.name"))
            elif e != b:
                spec_failures.append(dict(case, suite="environment-vs-explicit", with_environment_variable=e, explicitly_qualified=b,
                                          spec="default schema S (environment) gives the same result as explicit qualification"))
            elif j < n and a != spec[i]:
                spec_failures.append(dict(case, suite="vs-specification", impl=a, spec=spec[i]))
        # the two mechanisms combined with a scoped override of ANOTHER option (which must not hide or replace the default)
        k = 50 if quick else 500
        sub = plain[:k]
        for other in ({"DIRECTORY": "/srv/sql"}, {"TSQL_NO_SEMICOLON": True}):
            env_other = env_summaries([dict(x, config=other) for x in sub], S)
            scoped_other = t2tie.summaries([dict(x, config=dict(other, DEFAULT_SCHEMA=S)) for x in sub])
            for j, (e, a2) in enumerate(zip(env_other, scoped_other)):
                ck.count()
                dist["mechanisms"]["with_other_override"] = dist["mechanisms"].get("with_other_override", 0) + 1
                b = explicit[j]
                if b.startswith("ERR:InvalidSyntax"):
                    continue
                if e != b:
                    spec_failures.append({"default_schema": S, "sql": sub[j]["sql"], "suite": "environment+scoped-other-option", "other_option": other,
                                          "with_environment_variable": e, "explicitly_qualified": b,
                                          "spec": "a default schema from the environment still applies inside a scoped override of another option"})
                elif a2 != b:
                    spec_failures.append({"default_schema": S, "sql": sub[j]["sql"], "suite": "scoped-default+other-option", "other_option": other,
                                          "with_default_schema": a2, "explicitly_qualified": b,
                                          "spec": "a scoped default schema applies whatever other options the same override sets"})
        # tie under a default schema
        for x in t2tie.run_scripts([dict(x, config={"DEFAULT_SCHEMA": S}) for x in plain[: (40 if quick else 400)]]):
            ck.count()
            if "skip" in x:
                continue
            if x["impl"] != x.get("model"):
                disagreements.append({"suite": "T2-default-schema", "default_schema": S, "sql": x["rec"]["sql"], "impl": x["impl"][:1500], "model": x.get("model", "")[:1500]})
    # every statement kind (DROP, RENAME, UPDATE, MERGE, CREATE ... incl. multi-statement scripts): template scripts in which
    # exactly one table name ("w") is unqualified
    import re
    import gen_scripts
    scripts = [x for x in gen_scripts.gen_records(r, 160 if quick else 2500) if not x.get("metadata")]
    for rn in ("alter table s.a rename to w", "alter table w rename to s.b", "alter table s.a rename to s.b", "alter table w rename to w2"):
        scripts.append({"sql": "insert into s.a select k from t.a;\n" + rn, "dialect": "ansi"})
        scripts.append({"sql": "insert into w select k from t.a;\n" + rn + ";\ninsert into s.d select * from w", "dialect": "ansi"})
    qualify = lambda sql: re.sub(r"(?<![\w.])(w2?)(?![\w.])", r"dflt.\1", sql)
    plain_s = [{"sql": x["sql"], "dialect": "ansi", "metadata": None, "config": {}} for x in scripts]
    scoped_s = t2tie.summaries([dict(x, config={"DEFAULT_SCHEMA": "dflt"}) for x in plain_s])
    explicit_s = t2tie.summaries([dict(x, sql=qualify(x["sql"])) for x in plain_s])
    nodefault_s = t2tie.summaries(plain_s)
    dist["scripts"] = 0

    def placeholder_form(summ):
        """the summary with dflt. read as the placeholder, lists re-sorted (sorting is by printed name)"""
        if "#" not in summ:
            return summ
        tabs, pairs = summ.replace("dflt.", "<default>.").split("#", 1)
        rr, ww = tabs.split(";W=")
        srt = lambda l, sep: sep.join(sorted(x for x in l.split(sep) if x))
        return "R=" + srt(rr[2:], ",") + ";W=" + srt(ww, ",") + "#" + srt(pairs, ";")
    for x, a, b, c in zip(plain_s, scoped_s, explicit_s, nodefault_s):
        ck.count()
        dist["scripts"] += 1
        if b.startswith("ERR"):
            if a != b or c != b:
                spec_failures.append({"suite": "scripts-errors", "sql": x["sql"], "with_default_schema": a, "explicitly_qualified": b, "no_default": c,
                                      "spec": "the same outcome with a default schema, with explicit qualification and without default"})
            continue
        if "#" in b and b.split("#")[0] != "R=;W=":
            ck.nontriv(("script", x["sql"]))
        if a != b:
            spec_failures.append({"suite": "scripts-scoped-vs-explicit", "default_schema": "dflt", "sql": x["sql"], "qualified_sql": qualify(x["sql"]),
                                  "with_default_schema": a, "explicitly_qualified": b,
                                  "spec": "default schema S gives the same result as writing every unqualified table name as S.name"})
        elif placeholder_form(c) != placeholder_form(b):
            spec_failures.append({"suite": "scripts-placeholder", "sql": x["sql"], "no_default": c, "explicitly_qualified_with_placeholder": placeholder_form(b),
                                  "spec": "with no default the placeholder schema is used uniformly for sources, targets and column owners"})
    # homonyms: the unqualified table w next to a table of the same bare name in another schema (s1.w, dflt.w), referred to by
    # bare name, alias or full name, in every arrangement of one FROM - name resolution must not depend on whether "dflt"
    # is configured or written out (three-way: scoped = environment = explicit; the specification is not consulted here,
    # a bare name that two relations answer to is ambiguous)
    homo = []
    others = ["s1.w", "dflt.w", "s1.w x", "dflt2.w"]
    for o in others:
        for first, second in (("w", o), (o, "w"), ("w w0", o), (o, "w w0")):
            # only qualifiers that name a relation of this FROM (a dangling qualifier is a table name of its own)
            valid = ["w", o.split()[0]] + (["x"] if o.endswith(" x") else []) + (["w0"] if "w0" in first + second else [])
            for jn in (" join %s on 1 = 1", ", %s", " left join %s on w.k = 1"):
                for qi, q in enumerate(valid):
                    for tgt in ("tgt", "s9.tgt"):
                        homo.append("insert into %s select %s.col, %s.c2 as z from %s%s" % (tgt, q, valid[(qi + 1) % len(valid)], first, jn % second))
    homo += ["insert into tgt select w.col from s1.w join w on 1 = 1 join dflt.w on 1 = 1",
             "insert into tgt select * from w join s1.w on w.k = s1.w.k",
             "insert into tgt select col from w, s1.w",
             "create table tgt as select w.col from (select col from s1.w) w join w on 1 = 1"]
    if quick:
        homo = [h for i, h in enumerate(homo) if i % 3 == (int(os.environ.get("VERIF_SEED", "0")) % 3)] + homo[-4:]
    hp = [{"sql": h, "dialect": "ansi", "metadata": None, "config": {}} for h in homo]
    def qual_tables(sql):
        # qualify table positions only: after from / join / comma in FROM / into / table
        def fix(m):
            return m.group(1) + "dflt." + m.group(2)
        return re.sub(r"((?:from|join|into|table|,)\s+)(w|tgt)(?![\w.])", fix, sql)
    h_scoped = t2tie.summaries([dict(x, config={"DEFAULT_SCHEMA": "dflt"}) for x in hp])
    h_explicit = t2tie.summaries([dict(x, sql=qual_tables(x["sql"])) for x in hp])
    h_env = env_summaries(hp, "dflt")
    dist["homonym_statements"] = len(hp)
    for x, a, b, e in zip(hp, h_scoped, h_explicit, h_env):
        ck.count()
        if b.startswith("ERR") and a.startswith("ERR"):
            continue
        ck.nontriv(("homonym", x["sql"]))
        if a != b or e != b:
            spec_failures.append({"suite": "homonyms", "default_schema": "dflt", "sql": x["sql"], "qualified_sql": qual_tables(x["sql"]),
                                  "with_default_schema": a, "with_environment_variable": e, "explicitly_qualified": b,
                                  "spec": "default schema S gives the same result as writing every unqualified table name as S.name"})
    # CTE homonyms: a CTE called like a table that is written WITH a schema while the CTE is in scope (in its own body, in a
    # later CTE, in the main query) - for every default S incl. the very schema written in the statement ("a name already used
    # as a qualifier in the script").  A qualified name is never a CTE reference, whatever the default is.
    cte_tpl = ["insert into tgt with w as (select col, c2 from %(q)s.w where c2 > 0) select col, c2 from w",
               "create table tgt as with w as (select col, k from u) select w.col, y.c2 from w join %(q)s.w y on w.k = y.k",
               "with w as (select col from u) select w.col, %(q)s.w.c2 from w, %(q)s.w",
               "insert into tgt with w as (select col from u), v as (select c2 from %(q)s.w) select w.col, v.c2 from w cross join v",
               "insert into tgt with w as (select col from %(q)s.w), v as (select col from w) select col from v",
               "insert into tgt with w as (select col from u) select col from %(q)s.w",
               "create view tgt as with w as (select col from %(q)s.w union all select col from %(q2)s.w) select col from w",
               "insert into tgt with w as (select col from u) select x.col from %(q)s.w x where x.k in (select k from w)"]
    cte_h = []
    for tpl in cte_tpl:
        for q, q2 in (("dflt", "s1"), ("s1", "dflt"), ("dflt2", "dflt"), ("s1", "s1")):
            cte_h.append(tpl % {"q": q, "q2": q2})
    cte_h = list(dict.fromkeys(cte_h))
    qual_tu = lambda sql, S: re.sub(r"(?<![\w.])(tgt|u)(?![\w.(])", S + r".\1", sql)
    dist["cte_homonym_statements"] = 0
    for S in ("dflt", "s1"):
        cp = [{"sql": h, "dialect": "ansi", "metadata": None, "config": {}} for h in cte_h]
        c_scoped = t2tie.summaries([dict(x, config={"DEFAULT_SCHEMA": S}) for x in cp])
        c_explicit = t2tie.summaries([dict(x, sql=qual_tu(x["sql"], S)) for x in cp])
        c_env = env_summaries(cp, S)
        for x, a, b, e in zip(cp, c_scoped, c_explicit, c_env):
            ck.count()
            dist["cte_homonym_statements"] += 1
            if b.startswith("ERR") and a.startswith("ERR"):
                continue
            ck.nontriv(("cte-homonym", S, x["sql"]))
            if a != b or e != b:
                spec_failures.append({"suite": "cte-homonyms", "default_schema": S, "sql": x["sql"], "qualified_sql": qual_tu(x["sql"], S),
                                      "with_default_schema": a, "with_environment_variable": e, "explicitly_qualified": b,
                                      "spec": "default schema S gives the same result as writing every unqualified table name as S.name; "
                                              "names that are already qualified are unaffected"})
    # no default: the placeholder is used uniformly (= the specification with ds = "")
    spec0 = sqltie.spec_strings(stmts, ds="")
    for s, rec, a, sp in zip(stmts, sqltie.records(stmts), t2tie.summaries(sqltie.records(stmts)), spec0):
        ck.count()
        if a != sp and not a.startswith("ERR:InvalidSyntax"):
            spec_failures.append({"suite": "placeholder", "sql": rec["sql"], "impl": a, "spec": sp})
    # recorded finding: dangling qualifier under a scoped override
    for f in load_known():
        if f["property"] != "C14" or f["status"] != "known" or "replay" not in f:
            continue
        rp = f["replay"]
        got = t2tie._summary_only({"sql": rp["sql"], "dialect": "ansi", "config": {"DEFAULT_SCHEMA": rp["default_schema"]}})
        ck.count()
        if got == rp["observed"]:
            ck.known(f["id"], f["what"] + " (replayed: %r with DEFAULT_SCHEMA=%s -> %s)" % (rp["sql"], rp["default_schema"], got))
        elif got != rp["expected"]:
            spec_failures.append({"suite": "known-finding-replay", "finding": f["id"], "sql": rp["sql"], "impl": got,
                                  "recorded_defect": rp["observed"], "spec": rp["expected"]})
    ck.sample({"default_schema": "dflt", "sql": astgen.to_sql(stmts[1]), "qualified": astgen.to_sql(stmts[1], astgen.Opts(qualify="dflt"))})
    ck.notes["input_distribution"] = dist
    ck.conclude(spec_failures, disagreements, proofs_ok,
                "correspondence T2 under a default schema between Tree/*.v (e_cfg, e_icfg) and sqllineage/core/models.py, sqlfluff/models.py",
                "scoped override, environment variable, explicit qualification and the specification were compared on every statement; no failing input")
    return ck.finish(rule="%d generated statements (2 of 7 table names unqualified, targets qualified or not) x default schema in {unset, fresh name, name already "
                          "used as a qualifier} x mechanism in {scoped override, environment variable in a fresh process, either combined with a scoped override of another option} x {plain, qualified names spelled as one "
                          "quoted dotted identifier}; template scripts over all statement kinds (DROP, RENAME, UPDATE, MERGE ...) with one unqualified table; non-trivial = distinct (schema, SQL) with lineage" % n)


if __name__ == "__main__":
    raise SystemExit(main())
