"""Core-SQL abstract syntax (mirror of coq/theories/Ast/Spec.v), generators, a token
based SQL printer with rewrite options (layout noise, keyword / identifier case,
alias renaming, optional AS, schema qualification), and the Gallina emitter."""
from __future__ import annotations

import itertools

from common import coq_string

# ---------------------------------------------------------------------------
# AST constructors (plain tuples)
# ---------------------------------------------------------------------------
def col(q, c): return ("col", q, c)
LIT = ("lit",)
def fun(a, b): return ("fun", a, b)
def bin_(a, b): return ("bin", a, b)
def case(c, t, e): return ("case", c, t, e)
def cast(a): return ("cast", a)
def win(a, p, o): return ("win", a, p, o)
def iexpr(e, alias=None): return ("expr", e, alias)
def istar(q=None): return ("star", q)
def rtable(schema, name, alias=None): return ("table", (schema, name), alias)
def rderived(q, alias): return ("derived", q, alias)
def rgroup(a, b): return ("group", a, b)
def select(items, frm, comma=False, where=None): return ("select", items, frm, comma, where)
def union(a, b): return ("union", a, b)
def with_(name, cte, body): return ("with", name, cte, body)


# ---------------------------------------------------------------------------
# Gallina
# ---------------------------------------------------------------------------
def g_opt(s): return "None" if s is None else "(Some %s)" % coq_string(s)
def g_tref(t): return "(%s, %s)" % (g_opt(t[0]), coq_string(t[1]))


def g_expr(e):
    k = e[0]
    if k == "col": return "(EColRef %s %s)" % (g_opt(e[1]), coq_string(e[2]))
    if k == "lit": return "ELit"
    if k == "fun": return "(EFun %s %s)" % (g_expr(e[1]), g_expr(e[2]))
    if k == "bin": return "(EBin %s %s)" % (g_expr(e[1]), g_expr(e[2]))
    if k == "case": return "(ECase %s %s %s)" % (g_expr(e[1]), g_expr(e[2]), g_expr(e[3]))
    if k == "cast": return "(ECast %s)" % g_expr(e[1])
    if k == "win": return "(EWin %s %s %s)" % (g_expr(e[1]), g_expr(e[2]), g_expr(e[3]))
    raise ValueError(e)


def g_item(i):
    return "(IExpr %s %s)" % (g_expr(i[1]), g_opt(i[2])) if i[0] == "expr" else "(IStar %s)" % g_opt(i[1])


def g_rel(r):
    if r[0] == "group":
        return "(RGroup %s %s)" % (g_rel(r[1]), g_rel(r[2]))
    if r[0] == "table":
        return "(RTable %s %s)" % (g_tref(r[1]), g_opt(r[2]))
    return "(RDerived %s %s)" % (g_query(r[1]), coq_string(r[2]))


def g_query(q):
    if q[0] == "select":
        wh = "None" if q[4] is None else "(Some (%s, %s))" % (coq_string(q[4][0]), g_query(q[4][1]))
        return "(QSelect [%s] [%s] %s %s)" % ("; ".join(g_item(i) for i in q[1]), "; ".join(g_rel(r) for r in q[2]),
                                             "true" if q[3] else "false", wh)
    if q[0] == "union":
        return "(QUnion %s %s)" % (g_query(q[1]), g_query(q[2]))
    return "(QWith %s %s %s)" % (coq_string(q[1]), g_query(q[2]), g_query(q[3]))


def g_stmt(s):
    k = s[0]
    if k == "insert":
        cols = "None" if s[2] is None else "(Some [%s])" % "; ".join(coq_string(c) for c in s[2])
        return "(SInsert %s %s %s)" % (g_tref(s[1]), cols, g_query(s[3]))
    if k == "ctas": return "(SCtas %s %s)" % (g_tref(s[1]), g_query(s[2]))
    if k == "view": return "(SView %s %s)" % (g_tref(s[1]), g_query(s[2]))
    if k == "query": return "(SQuery %s)" % g_query(s[1])
    return "(SNoData %d)" % s[1]


# ---------------------------------------------------------------------------
# printer: tokens (kind, text); kind in kw / id / sym / lit
# ---------------------------------------------------------------------------
class Opts:
    def __init__(self, kw_case="upper", id_case="lower", use_as=True, rename=None, qualify=None, quote=None,
                 noise=None, trailing=";", fun4=False, recursive=False, joins=None):
        self.kw_case, self.id_case, self.use_as = kw_case, id_case, use_as
        self.rename = rename or {}          # statement-local names (aliases, CTE names) -> new names
        self.qualify = qualify              # schema to write in front of unqualified table names
        self.quote = quote                  # (open, close) to quote (lower-case) identifiers
        self.noise = noise                  # callable(index) -> separator string
        self.trailing = trailing
        self.fun4 = fun4                    # print coalesce(a, b) as coalesce(a, b, a, b)
        self.recursive = recursive          # print WITH RECURSIVE (the CTE names are visible in their own bodies)
        self.joins = joins                  # "mixed": rotate JOIN / INNER JOIN / LEFT JOIN / LEFT OUTER JOIN (one token per word)
        self._jn = 0

    JOIN_KINDS = [["join"], ["inner", "join"], ["left", "join"], ["left", "outer", "join"]]

    def join_tokens(self):
        if self.joins != "mixed":
            return [("kw", self.kw("join"))]
        self._jn += 1
        return [("kw", self.kw(w)) for w in self.JOIN_KINDS[self._jn % len(self.JOIN_KINDS)]]

    def kw(self, w):
        if self.kw_case == "upper": return w.upper()
        if self.kw_case == "lower": return w.lower()
        return "".join(ch.upper() if i % 2 else ch.lower() for i, ch in enumerate(w))

    def ident(self, name):
        if self.quote:
            return self.quote[0] + name + self.quote[1]
        if self.id_case == "upper": return name.upper()
        if self.id_case == "mixed": return "".join(ch.upper() if i % 2 == 0 else ch for i, ch in enumerate(name))
        return name

    def local(self, name):
        new = self.rename.get(name, name)
        if new[:1] in "\"`[":       # already spelled (quoted) by the caller
            return new
        return self.ident(new)


def t_expr(e, o, ctes):
    k = e[0]
    if k == "col":
        if e[1] is None:
            return [("id", o.ident(e[2]))]
        return [("id", o.local(e[1]) + "." + o.ident(e[2]))] if "." not in e[1] else \
               [("id", ".".join(o.ident(p) for p in e[1].split(".")) + "." + o.ident(e[2]))]
    if k == "lit": return [("lit", "1")]
    if k == "fun":
        args = t_expr(e[1], o, ctes) + [("sym", ",")] + t_expr(e[2], o, ctes)
        if o.fun4:
            args = args + [("sym", ",")] + args
        return [("id", o.kw("coalesce")), ("sym", "(")] + args + [("sym", ")")]
    if k == "bin": return t_expr(e[1], o, ctes) + [("sym", "+")] + t_expr(e[2], o, ctes)
    if k == "case":
        return [("kw", o.kw("case")), ("kw", o.kw("when"))] + t_expr(e[1], o, ctes) + [("sym", ">"), ("lit", "0"), ("kw", o.kw("then"))] + \
            t_expr(e[2], o, ctes) + [("kw", o.kw("else"))] + t_expr(e[3], o, ctes) + [("kw", o.kw("end"))]
    if k == "cast": return [("kw", o.kw("cast")), ("sym", "(")] + t_expr(e[1], o, ctes) + [("kw", o.kw("as")), ("kw", o.kw("int")), ("sym", ")")]
    if k == "win":
        return [("id", o.kw("sum")), ("sym", "(")] + t_expr(e[1], o, ctes) + [("sym", ")"), ("kw", o.kw("over")), ("sym", "("),
                ("kw", o.kw("partition")), ("kw", o.kw("by"))] + t_expr(e[2], o, ctes) + [("kw", o.kw("order")), ("kw", o.kw("by"))] + \
            t_expr(e[3], o, ctes) + [("sym", ")")]
    raise ValueError(e)


def t_tref(t, o, ctes):
    schema, name = t
    if schema is None and name in ctes:
        return [("id", o.local(name))]
    if schema is None and o.qualify:
        return [("id", o.ident(o.qualify) + "." + o.ident(name))]
    return [("id", (".".join(o.ident(p) for p in schema.split(".")) + "." if schema else "") + o.ident(name))]


def t_alias(a, o):
    return ([("kw", o.kw("as"))] if o.use_as else []) + [("id", o.local(a))]


def t_rel(r, o, ctes):
    if r[0] == "table":
        return t_tref(r[1], o, ctes) + (t_alias(r[2], o) if r[2] is not None else [])
    if r[0] == "group":
        return [("sym", "(")] + t_rel(r[1], o, ctes) + o.join_tokens() + t_rel(r[2], o, ctes) + \
            [("kw", o.kw("on")), ("lit", "1"), ("sym", "="), ("lit", "1"), ("sym", ")")]
    return [("sym", "(")] + t_query(r[1], o, ctes) + [("sym", ")")] + t_alias(r[2], o)


def t_query(q, o, ctes):
    if q[0] == "select":
        out = [("kw", o.kw("select"))]
        for n, it in enumerate(q[1]):
            if n:
                out.append(("sym", ","))
            if it[0] == "star":
                qp = "" if not it[1] else (".".join(o.ident(x) for x in it[1].split(".")) if "." in it[1] else o.local(it[1])) + "."
                out.append(("id", qp + "*"))
            else:
                out += t_expr(it[1], o, ctes)
                if it[2] is not None:
                    out += t_alias(it[2], o) if o.use_as else [("id", o.ident(it[2]))]
        out.append(("kw", o.kw("from")))
        for n, r in enumerate(q[2]):
            if n:
                out += [("sym", ",")] if q[3] else o.join_tokens()
            out += t_rel(r, o, ctes)
            if n and not q[3]:
                out += [("kw", o.kw("on")), ("lit", "1"), ("sym", "="), ("lit", "1")]
        if q[4] is not None:
            out += [("kw", o.kw("where")), ("id", o.ident(q[4][0])), ("kw", o.kw("in")), ("sym", "(")] + t_query(q[4][1], o, ctes) + [("sym", ")")]
        return out
    if q[0] == "union":
        return t_query(q[1], o, ctes) + [("kw", o.kw("union")), ("kw", o.kw("all"))] + t_query(q[2], o, ctes)
    # WITH a AS (..) [WITH b AS (..) body]  is written as the list  WITH a AS (..), b AS (..) body
    out = [("kw", o.kw("with"))] + ([("kw", o.kw("recursive"))] if o.recursive else [])
    first = True
    while q[0] == "with":
        inner = ctes | {q[1]} if o.recursive else ctes
        out += ([] if first else [("sym", ",")]) + [("id", o.local(q[1])), ("kw", o.kw("as")), ("sym", "(")] + t_query(q[2], o, inner) + [("sym", ")")]
        ctes = ctes | {q[1]}
        first = False
        q = q[3]
    return out + t_query(q, o, ctes)


NODATA = ["delete from s1.t1 where k = 1", "truncate table s1.t1", "delete from t4", "truncate table s2.t3"]


def t_stmt(s, o):
    k = s[0]
    if k == "insert":
        out = [("kw", o.kw("insert")), ("kw", o.kw("into"))] + t_tref(s[1], o, set())
        if s[2] is not None:
            out.append(("sym", "("))
            for n, c in enumerate(s[2]):
                if n:
                    out.append(("sym", ","))
                out.append(("id", o.ident(c)))
            out.append(("sym", ")"))
        return out + t_query(s[3], o, set())
    if k == "ctas":
        return [("kw", o.kw("create")), ("kw", o.kw("table"))] + t_tref(s[1], o, set()) + [("kw", o.kw("as"))] + t_query(s[2], o, set())
    if k == "view":
        return [("kw", o.kw("create")), ("kw", o.kw("view"))] + t_tref(s[1], o, set()) + [("kw", o.kw("as"))] + t_query(s[2], o, set())
    if k == "query":
        return t_query(s[1], o, set())
    return [("kw", w) for w in NODATA[s[1] % len(NODATA)].split()]


def to_sql(s, o=None) -> str:
    o = o or Opts()
    o._jn = 0
    toks = t_stmt(s, o)
    parts = []
    for i, (_, text) in enumerate(toks):
        if i:
            parts.append(o.noise(i) if o.noise else " ")
        parts.append(text)
    return "".join(parts) + (o.trailing or "")


# ---------------------------------------------------------------------------
# generators
# ---------------------------------------------------------------------------
TABLES = [("s1", "t1"), ("s1", "t2"), ("s2", "t3"), ("s2", "t1"), (None, "t4"), (None, "t5"), ("db1.s4", "t6")]
TARGETS = [("s3", "out1"), (None, "out2")]
COLS = ["ck", "cx", "cy", "cz"]      # keyword-free under every dialect (a bare y is a date part in snowflake)
ALIASES = ["p", "q", "r", "u", "v", "w"] + ["a%d" % i for i in range(1, 40)]


def gen_expr(r, scope_refs, depth):
    """scope_refs: list of (qualifier or None, column) that are valid in this scope"""
    if depth == 0 or r.random() < 0.35:
        q, c = r.choice(scope_refs)
        return col(q, c)
    k = r.choice(["fun", "bin", "case", "cast", "win", "binlit"])
    sub = lambda: gen_expr(r, scope_refs, depth - 1)
    if k == "fun": return fun(sub(), sub())
    if k == "bin": return bin_(sub(), sub())
    if k == "binlit": return bin_(sub(), LIT)
    if k == "case": return case(sub(), sub(), sub())
    if k == "cast": return cast(sub())
    return win(sub(), sub(), sub())


class Names(set):
    """statement-level generator state: the aliases taken so far; [reuse]: aliases may be reused in another
    scope of the statement (the statement is then validated by alias_reuse_ok); [counter]: fresh suffixes"""
    reuse = False
    counter = 0


def gen_select(r, depth, ctes, n_items=None, allow_star=True, used_tables=None, allow_comma=True, taken=None):
    """returns (query, output column names or None when a star makes them unknown).
    [taken]: aliases already used elsewhere in the statement.  By default an alias is never reused for another
    relation; in reuse mode it may be, in another scope, as long as the recorded defect class K-C02-4 is avoided
    (see alias_reuse_ok)"""
    used_tables = used_tables if used_tables is not None else set()
    taken = taken if taken is not None else Names()
    n_rel = r.choice([1, 1, 1, 2, 2, 3])
    rels, refs, has_derived = [], [], False
    if getattr(taken, "reuse", False):
        aliases = r.sample(ALIASES[:3], n_rel)
    else:
        aliases = r.sample([a for a in ALIASES if a not in taken], n_rel)
    taken.update(aliases)
    taken.counter = getattr(taken, "counter", 0) + 1
    uniq = taken.counter
    quals = []
    all_base = True
    for i in range(n_rel):
        c = r.random()
        if c < 0.2 and depth > 0:
            sub, names = gen_select(r, depth - 1, ctes, allow_star=False, used_tables=used_tables, taken=taken)
            rels.append(rderived(sub, aliases[i]))
            refs += [(aliases[i], n) for n in names]
            all_base = False
        elif c < 0.3 and ctes:
            name, names = r.choice(ctes)
            al = aliases[i] if r.random() < 0.5 else None
            rels.append(rtable(None, name, al))
            refs += [(al or name, n) for n in names]
            all_base = False
        else:
            # two relations with the same bare table name in one statement are a recorded defect class (K-C02-3)
            t = r.choice([t for t in TABLES if t[1] not in {u[1] for u in used_tables} or t in used_tables])
            al = aliases[i] if (r.random() < 0.6 or n_rel > 1 and any(x[0] == "table" and x[1][1] == t[1] for x in rels)) else None
            rels.append(rtable(t[0], t[1], al))
            used_tables.add(t)
            qual = al or t[1]
            if al is None and t[0] is not None and r.random() < 0.35:
                qual = t[0] + "." + t[1]          # schema.table.column
            quals.append(qual)
            refs += [(qual, c2) for c2 in COLS]
    comma = allow_comma and n_rel > 1 and r.random() < 0.3
    if not comma and n_rel == 3 and r.random() < 0.4:
        # the first relation of a parenthesised join group loses its alias (recorded: K-C02-6), so in the
        # guarded stream a group starts with an un-aliased base table
        plain = lambda x: x[0] == "table" and x[2] is None and not (x[1][0] is None and x[1][1] in [c[0] for c in ctes])
        if plain(rels[1]) and r.random() < 0.7:
            rels = [rels[0], rgroup(rels[1], rels[2])]
        elif plain(rels[0]):
            rels = [rgroup(rels[0], rels[1]), rels[2]]
    # unqualified references: only with one relation in scope, or (unresolved case) several base tables
    if n_rel == 1:
        refs = refs + [(None, c2) for (_, c2) in refs]
    elif all_base and r.random() < 0.3:
        # unresolved references use names that are never referenced with a qualifier elsewhere (K-C02-5)
        # ... and that are not shared with another scope of the statement: unresolved columns of the same name
        # from different scopes are merged into one node (recorded: K-C04-1)
        refs = refs + [(None, "u%d%s%d" % (uniq, aliases[0], j)) for j in (1, 2)]
    items, names = [], []
    n_items = n_items or r.choice([1, 2, 2, 3])
    star_ok = allow_star and n_rel == 1 and rels[0][0] == "table" and not (rels[0][1][0] is None and rels[0][1][1] in [c[0] for c in ctes])
    if star_ok and r.random() < 0.15:
        items, names = [istar(None)], None
    elif allow_star and all_base and n_rel > 1 and r.random() < 0.1:
        items, names = [istar(r.choice(quals))], None        # qualifier.* over a join of base tables
    else:
        pool = [c for c in COLS + ["cm", "cn"]]
        for j in range(n_items):
            e = gen_expr(r, refs, r.choice([0, 0, 1, 2, 3]))
            if e[0] == "col" and r.random() < 0.5 and e[2] not in names:
                items.append(iexpr(e, None))
                names.append(e[2])
            else:
                a = next(x for x in pool if x not in names)
                items.append(iexpr(e, a))
                names.append(a)
    where = None
    if depth > 0 and r.random() < 0.2:
        # a comma join directly inside IN (...) is parsed by sqlfluff as an IN-list (recorded: K-C01-4)
        sub, _ = gen_select(r, 0, ctes, n_items=1, allow_star=False, used_tables=used_tables, allow_comma=False, taken=taken)
        where = (r.choice(COLS), sub)
    return select(items, rels, comma, where), names


def gen_query(r, depth, used_tables, reuse=None):
    c = r.random()
    taken = Names()
    taken.reuse = (r.random() < 0.25) if reuse is None else reuse
    if c < 0.2 and depth > 0:
        # WITH c1 AS (..) [, c2 AS (.. may read c1 ..)] body
        cte, names = gen_select(r, depth - 1, [], allow_star=False, used_tables=used_tables, taken=taken)
        ctes = [("c1", names)]
        if r.random() < 0.4:
            cte2, names2 = gen_select(r, depth - 1, ctes, allow_star=False, used_tables=used_tables, taken=taken)
            body, out = gen_select(r, depth - 1, ctes + [("c2", names2)], used_tables=used_tables, taken=taken)
            return with_("c1", cte, with_("c2", cte2, body)), out
        body, out = gen_select(r, depth - 1, ctes, used_tables=used_tables, taken=taken)
        return with_("c1", cte, body), out
    if c < 0.35:
        a, names = gen_select(r, depth - 1 if depth else 0, [], allow_star=False, used_tables=used_tables, taken=taken)
        b, _ = gen_select(r, 0, [], n_items=len(names), allow_star=False, used_tables=used_tables, taken=taken)
        return union(a, b), names
    return gen_select(r, depth, [], used_tables=used_tables, taken=taken)


def wrap_stmt(r, q, names):
    k = r.choice(["insert", "insert", "insertcols", "ctas", "view", "query"])
    if k == "query":
        return ("query", q)
    tgt = r.choice([t for t in TARGETS])
    if k == "insertcols" and names is not None:
        # column lists reuse select-item names in another order (the list wins by position, never by name)
        cl = r.sample(COLS + ["cm", "cn"], len(names)) if r.random() < 0.6 else ["c%d" % i for i in range(len(names))]
        return ("insert", tgt, cl, q)
    if k in ("insert", "insertcols"):
        return ("insert", tgt, None, q)
    return (k, tgt, q)


def gen_stmt(r, depth=2, reuse=None):
    if r.random() < 1 / 7:
        return ("nodata", r.randrange(4))
    for _ in range(50):
        used = set()
        q, names = gen_query(r, depth, used, reuse)
        s = wrap_stmt(r, q, names)
        if alias_reuse_ok(s):
            return s
    return wrap_stmt(r, *gen_query(r, depth, set(), False))


def stmt_query(s):
    return s[3] if s[0] == "insert" else s[2] if s[0] in ("ctas", "view") else s[1] if s[0] == "query" else None


def scopes_of(s):
    """every SELECT scope of a statement: [(alias or None, dataset)] with dataset = table reference tuple, or
    ('sq', printed text) for a derived table; CTE references count as the CTE's name"""
    out = []

    def flat(rr):
        return flat(rr[1]) + flat(rr[2]) if rr[0] == "group" else [rr]

    def q_(q):
        """appends the scopes of q; returns the datasets of its top-level scope(s)"""
        if q[0] == "select":
            sc = []
            for rr in q[2]:
                for x in flat(rr):
                    if x[0] == "table":
                        sc.append((x[2], x[1]))
                    else:
                        sc.append((x[2], ("sq", id(x[1]))))
                        q_(x[1])
            out.append(sc)
            if q[4] is not None:
                # the tables of a WHERE ... IN (sub-query) are merged into the enclosing scope's table group
                sc += [(None, ds) for ds in q_(q[4][1])]
            return [ds for _, ds in sc]
        if q[0] == "union":
            return q_(q[1]) + q_(q[2])
        q_(q[2])
        return q_(q[3])
    q = stmt_query(s)
    if q is not None:
        q_(q)
    return out


def alias_reuse_ok(s):
    """the guarded stream keeps out of the recorded defect class K-C02-4: an alias bound to X in one scope and to Y
    in another, while Y also occurs in the first scope (the alias edges of all scopes of a statement are mixed)"""
    def aliases_in(q):
        return {al for sc in scopes_of(("query", q)) for al, _ in sc if al}

    def nested_ok(q):
        # ... and of K-C02-7: a derived table's alias used again for a relation inside that derived table
        if q[0] == "select":
            stack = list(q[2])
            while stack:
                x = stack.pop()
                if x[0] == "group":
                    stack += [x[1], x[2]]
                elif x[0] == "derived":
                    if x[2] in aliases_in(x[1]) or not nested_ok(x[1]):
                        return False
            return q[4] is None or nested_ok(q[4][1])
        if q[0] == "union":
            return nested_ok(q[1]) and nested_ok(q[2])
        return nested_ok(q[2]) and nested_ok(q[3])
    q0 = stmt_query(s)
    if q0 is not None and not nested_ok(q0):
        return False
    scs = scopes_of(s)
    for i, a in enumerate(scs):
        for j, b in enumerate(scs):
            if i == j:
                continue
            for al, x in a:
                if al is None:
                    continue
                for bl, y in b:
                    if bl == al and y != x and any(ds == y for _, ds in a):
                        return False
    return True


def stmt_tables(s):
    """table references (schema, name) read anywhere in a statement, CTE references excluded"""
    out = []

    def q_(q, ctes):
        if q[0] == "select":
            stack = list(q[2])
            while stack:
                x = stack.pop()
                if x[0] == "group":
                    stack += [x[1], x[2]]
                elif x[0] == "derived":
                    q_(x[1], ctes)
                elif not (x[1][0] is None and x[1][1] in ctes):
                    out.append(x[1])
            if q[4] is not None:
                q_(q[4][1], ctes)
        elif q[0] == "union":
            q_(q[1], ctes); q_(q[2], ctes)
        else:
            q_(q[2], ctes); q_(q[3], ctes | {q[1]})
    q = stmt_query(s)
    if q is not None:
        q_(q, set())
    return out


def gen_self_reading(r, depth=2):
    """a statement whose target is one of the tables it reads, at any nesting level (anti-join loads, derived tables or CTEs
    over the target): table level only (the column level of such statements is the recorded class K-C02-2)"""
    for _ in range(100):
        s = gen_stmt(r, depth, False)
        if s[0] not in ("insert", "ctas", "view"):
            continue
        tabs = stmt_tables(s)
        if not tabs:
            continue
        t = r.choice(tabs)
        return (s[0], t) + tuple(s[2:])
    raise RuntimeError("no statement")


def gen_recursive(r):
    """WITH RECURSIVE r1 AS (anchor UNION ALL step reading r1) body reading r1: table level only"""
    tabs = r.sample([t for t in TABLES if t[1] != "t1"] + [("s1", "t1")], 3)
    name = r.choice(["r1", "tree", "walk"])
    anchor = select([iexpr(col(None, "ck"), None), iexpr(col(None, "cx"), None)], [rtable(tabs[0][0], tabs[0][1])])
    self_ref = rtable(None, name, r.choice([None, "rr"]))
    step_rels = [rtable(tabs[1][0], tabs[1][1], "e"), self_ref]
    if r.random() < 0.5:
        step_rels.reverse()
    step = select([iexpr(col("e", "ck"), None), iexpr(col("e", "cx"), None)], step_rels, r.random() < 0.3)
    body_rels = [rtable(None, name, r.choice([None, "b1"]))] + ([rtable(tabs[2][0], tabs[2][1], "o")] if r.random() < 0.5 else [])
    body = select([iexpr(col(body_rels[0][2] or name, "ck"), None)], body_rels)
    q = with_(name, union(anchor, step), body)
    if r.random() < 0.3:
        first = select([iexpr(col(None, "cy"), None)], [rtable(None, "t5")])
        q = with_("c0", first, q)
    return wrap_stmt(r, q, ["ck"])


def gen_scoped(r):
    """a statement with an alias that is local to a derived table, and a new name for it that is the bare name of a
    table of the enclosing query (not visible inside the derived table, so the renaming is injective and clash-free
    in the alias's scope): returns (statement, alias, new name)"""
    x, y, z = r.sample([t for t in TABLES if t[1] != "t1"] + [("s1", "t1")], 3)
    al = r.choice(["p", "q", "v"])
    inner_rels = [rtable(y[0], y[1], al)] + ([rtable(z[0], z[1], "k1")] if r.random() < 0.4 else [])
    d2 = rderived(select([iexpr(col(al, "ck"), None), iexpr(col(al, "cx"), "cm")], inner_rels), "d2")
    rels = [d2]
    items = [iexpr(col("d2", "ck"), "o1"), iexpr(col(x[1], "cy"), "o2")]
    if r.random() < 0.6:
        rels.append(rderived(select([iexpr(col(None, "cz"), None)], [rtable(x[0], x[1])]), "d1"))
        items.append(iexpr(col("d1", "cz"), "o3"))
    rels.append(rtable(x[0], x[1]))                       # the enclosing query reads x un-aliased ...
    if r.random() < 0.7:
        rels.append(rtable(y[0], y[1]))                   # ... and possibly y, the table behind the inner alias
        items.append(iexpr(col(y[1], "cz"), "o4"))
    r.shuffle(rels)
    q = select(items, rels, False)
    if r.random() < 0.3:
        q = union(q, select([iexpr(col(None, "ck"), None) for _ in items], [rtable(z[0], z[1])]))
    return wrap_stmt(r, q, ["o%d" % i for i in range(len(items))]), al, x[1]


def gen_same_alias_pair(r):
    """two statements that differ only in the spelling of ONE derived-table alias: in the first, two different derived
    tables in sibling scopes carry the same alias (and expose a same-named column that flows to different targets); in
    the second the aliases are distinct.  Renaming a local name of one scope must not change anything."""
    a, b = r.sample([t for t in TABLES if t[1] != "t1"] + [("s1", "t1")], 2)
    ca, cb = r.sample(COLS, 2)
    al = r.choice(["t", "sub", "v"])

    def build(al2):
        ia = rderived(select([iexpr(col(None, ca), "c1"), iexpr(col(None, "ck"), "k1")], [rtable(a[0], a[1])]), al)
        ib = rderived(select([iexpr(col(None, cb), "c1"), iexpr(col(None, "ck"), "k1")], [rtable(b[0], b[1])]), al2)
        shape = build.shape
        if shape == "nested-join":
            x = rderived(select([iexpr(col(al, "c1"), None)], [ia]), "x")
            y = rderived(select([iexpr(col(al2, "c1"), None)], [ib]), "y")
            q = select([iexpr(col("x", "c1"), "o1"), iexpr(col("y", "c1"), "o2")], [x, y], build.comma)
        elif shape == "direct-join":
            # the two derived tables side by side cannot share an alias; put one of them a level down
            y = rderived(select([iexpr(col(al2, "c1"), "c1")], [ib]), "y")
            q = select([iexpr(col(al, "c1"), "o1"), iexpr(col("y", "c1"), "o2")], [ia, y], build.comma)
        else:   # union branches, the shared column name at different positions
            q = union(select([iexpr(col(al, "c1"), "o1"), iexpr(col(al, "k1"), "o2")], [ia]),
                      select([iexpr(col(al2, "k1"), "o1"), iexpr(col(al2, "c1"), "o2")], [ib]))
        return q
    build.shape = r.choice(["nested-join", "nested-join", "direct-join", "union"])
    build.comma = r.random() < 0.3
    kind = r.choice(["insert", "ctas", "view"])
    tgt = r.choice(TARGETS)
    wrap = (lambda q: ("insert", tgt, None, q)) if kind == "insert" else (lambda q: (kind, tgt, q))
    return wrap(build(al)), wrap(build("zz9"))


# ---------------------------------------------------------------------------
# systematic FROM shapes: relation kinds x grouping x join style
# ---------------------------------------------------------------------------
SHAPE_KINDS = "TASDJC"   # plain table, aliased table, schema table, derived table, derived table over a join, CTE reference


def shape_space():
    out = []
    for n in (1, 2, 3):
        for kinds in itertools.product(SHAPE_KINDS, repeat=n):
            out.append((kinds, None, False))
            if n > 1:
                out.append((kinds, None, True))
            if n == 3:
                # the first relation of a group is an un-aliased base table (K-C02-6)
                if kinds[0] in "TS":
                    out.append((kinds, "12", False))
                if kinds[1] in "TS":
                    out.append((kinds, "23", False))
    return out


def build_shape(shape, idx):
    kinds, grouping, comma = shape
    plain = [(None, "t4"), (None, "t5"), (None, "tg")]
    schemad = [("s1", "t1"), ("s2", "t3"), ("db1.s4", "t6")]
    inner = [("s1", "t2"), ("s5", "th"), ("s5", "ti"), (None, "tj"), (None, "tk"), (None, "tm")]
    rels, items, ctes = [], [], []
    for i, k in enumerate(kinds):
        al = "a%d" % (i + 1)
        if k == "T":
            t = plain[i]; rels.append(rtable(t[0], t[1])); q = t[1]
        elif k == "A":
            t = schemad[i]; rels.append(rtable(t[0], t[1], al)); q = al
        elif k == "S":
            t = schemad[i]; rels.append(rtable(t[0], t[1])); q = (t[0] + "." + t[1]) if (idx + i) % 2 else t[1]
        elif k == "D":
            t = inner[i]; rels.append(rderived(select([iexpr(col(None, "ck"), None), iexpr(col(None, "cx"), "cm")], [rtable(t[0], t[1])]), al)); q = al
        elif k == "J":
            t, u = inner[i], inner[i + 3]
            rels.append(rderived(select([iexpr(col("i%d" % i, "ck"), None), iexpr(col(u[1], "cx"), "cm")],
                                        [rtable(t[0], t[1], "i%d" % i), rtable(u[0], u[1])]), al)); q = al
        else:
            t = inner[i]; name = "w%d" % (i + 1)
            ctes.append((name, select([iexpr(col(None, "ck"), None), iexpr(col(None, "cz"), "cm")], [rtable(t[0], t[1])])))
            use_alias = (idx + i) % 3 == 0
            rels.append(rtable(None, name, al if use_alias else None)); q = al if use_alias else name
        items.append(iexpr(col(q, "ck" if i % 2 == 0 else "cm" if k in "DJC" else "cx"), "o%d" % (i + 1)))
    if grouping == "12":
        rels = [rgroup(rels[0], rels[1]), rels[2]]
    elif grouping == "23":
        rels = [rels[0], rgroup(rels[1], rels[2])]
    q = select(items, rels, comma)
    for name, body in reversed(ctes):
        q = with_(name, body, q)
    kind = ["insert", "ctas", "view", "query", "insertcols"][idx % 5]
    tgt = TARGETS[idx % 2]
    if kind == "query": return ("query", q)
    if kind == "insert": return ("insert", tgt, None, q)
    if kind == "insertcols": return ("insert", tgt, ["c%d" % j for j in range(len(items))], q)
    return (kind, tgt, q)


def gen_batch(r, n, depths=(0, 1, 2, 2), shapes=None, reuse=None):
    """n random statements followed by [shapes] statements drawn without replacement from the systematic shape space
    (all of it when shapes is None)"""
    out = [gen_stmt(r, r.choice(list(depths)), reuse) for _ in range(n)]
    space = list(enumerate(shape_space()))
    pick = space if shapes is None or shapes >= len(space) else r.sample(space, shapes)
    return out + [build_shape(sh, i) for i, sh in pick]


def local_names(s):
    """aliases and CTE names of a statement"""
    out = set()

    def q_(q):
        if q[0] == "select":
            for rr in q[2]:
                stack = [rr]
                while stack:
                    x = stack.pop()
                    if x[0] == "group":
                        stack += [x[1], x[2]]
                        continue
                    if x[2] is not None:
                        out.add(x[2])
                    if x[0] == "derived":
                        q_(x[1])
            if q[4] is not None:
                q_(q[4][1])
        elif q[0] == "union":
            q_(q[1]); q_(q[2])
        else:
            out.add(q[1]); q_(q[2]); q_(q[3])
    if s[0] in ("insert",):
        q_(s[3])
    elif s[0] in ("ctas", "view"):
        q_(s[2])
    elif s[0] == "query":
        q_(s[1])
    return out


# known-defect witnesses (classes excluded from the generators above), as ASTs
def defect_cases():
    t = lambda s, n, a=None: rtable(s, n, a)
    return {
        "K-C02-1": ("insert", ("s3", "out1"), None,
                    union(select([iexpr(LIT, "k"), iexpr(col(None, "x"), None)], [t("s1", "t1")]),
                          select([iexpr(col(None, "y"), None), iexpr(col(None, "z"), None)], [t("s1", "t2")]))),
        "K-C02-2": ("insert", ("s1", "t1"), None, select([iexpr(col(None, "x"), None)], [t("s1", "t1")])),
        "K-C02-3": ("insert", ("s3", "out1"), None,
                    select([iexpr(col("t1", "x"), None)], [t("s1", "t1", "t1"), t("s2", "t1", "u")])),
    }
