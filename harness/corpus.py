"""The corpus: SQL harvested from the repository's own tests (all dialects they name)
plus the bundled TPC-DS queries.  Rebuilt when /repo/tests changes."""
from __future__ import annotations

import hashlib
import json
import os
import subprocess
from pathlib import Path

from common import REPO, VERIF

INDEX = VERIF / "corpus" / "index.json"


def tests_hash() -> str:
    h = hashlib.sha256()
    for f in sorted((REPO / "tests").rglob("*.py")):
        h.update(str(f.relative_to(REPO)).encode())
        h.update(f.read_bytes())
    return h.hexdigest()


def harvest() -> dict:
    out = VERIF / "corpus" / "harvest.tmp.json"
    env = dict(os.environ)
    env["PYTHONPATH"] = f"{REPO}:{VERIF / 'harness'}"
    env["HARVEST_OUT"] = str(out)
    env.pop("SQLLINEAGE_VERIF", None)
    subprocess.run(
        ["/venv/bin/python", "-m", "pytest", "-q", "-p", "no:cacheprovider", "-p", "harvest_plugin",
         "--no-header", "-W", "ignore", "tests/sql", "tests/core/test_runner.py", "tests/core/test_exception.py",
         "--deselect", "tests/core/test_cli.py"],
        cwd=REPO, env=env, capture_output=True, text=True, timeout=1200,
    )
    recs = json.loads(out.read_text()) if out.exists() else []
    if out.exists():
        out.unlink()
    tpcds = []
    for f in sorted((REPO / "sqllineage" / "data" / "tpcds").glob("*.sql")):
        tpcds.append({"sql": f.read_text(), "dialect": "ansi", "silent": False, "metadata": None, "provider": "dummy",
                      "config": {"DEFAULT_SCHEMA": "", "TSQL_NO_SEMICOLON": False, "LATERAL_COLUMN_ALIAS_REFERENCE": False},
                      "origin": "tpcds/" + f.name})
    idx = {"tests_hash": tests_hash(), "records": recs + tpcds}
    INDEX.parent.mkdir(exist_ok=True)
    INDEX.write_text(json.dumps(idx, indent=0))
    return idx


def load() -> list[dict]:
    if INDEX.exists():
        idx = json.loads(INDEX.read_text())
        if idx.get("tests_hash") == tests_hash():
            return idx["records"]
    return harvest()["records"]


if __name__ == "__main__":
    recs = harvest()["records"]
    from collections import Counter
    print(len(recs), Counter(r["dialect"] for r in recs).most_common(8), sum(1 for r in recs if r["metadata"]))
