"""Observation of the implementation's graphs: dataset keys, abstraction of a
statement holder to the table-level statement of Holder/TableLevel.v, helpers
to run scripts with the statement tap."""
from __future__ import annotations

import warnings

from sqllineage.core.holders import SQLLineageHolder, StatementLineageHolder
from sqllineage.core.models import Column, Path, SubQuery, Table
from sqllineage.utils import verif as tapmod

from common import coq_string

warnings.filterwarnings("ignore")


def dkey(n) -> str:
    if isinstance(n, Table):
        return "T:" + str(n)
    if isinstance(n, Path):
        return "P:" + str(n)
    raise TypeError(n)


def is_dataset(n) -> bool:
    return isinstance(n, (Table, Path))


def abstract_holder(h: StatementLineageHolder) -> dict:
    g = h.graph
    hn = [dkey(n) for n in g.nodes if is_dataset(n)]
    wired = []
    for n in g.nodes:
        if not is_dataset(n):
            continue
        nb = list(g.successors(n)) + list(g.predecessors(n))
        if any(not is_dataset(x) for x in nb):
            wired.append(dkey(n))
    return {
        "hnodes": hn,
        "reads": [dkey(t) for t in h.read],
        "writes": [dkey(t) for t in h.write],
        "drops": [dkey(t) for t in h.drop if is_dataset(t)],
        "renames": [(dkey(a), dkey(b)) for a, b in h.rename],
        "wired": wired,
        # dataset->dataset edges of the holder graph other than RENAME edges: the model assumes none
        "foreign_edges": [(dkey(a), dkey(b)) for a, b, d in g.edges(data=True)
                          if is_dataset(a) and is_dataset(b) and d.get("type") != "rename"],
    }


def g_list(xs) -> str:
    return "[" + "; ".join(coq_string(x) for x in xs) + "]"


def g_astmt(a: dict) -> str:
    rn = "; ".join(f"({coq_string(x)}, {coq_string(y)})" for x, y in a["renames"])
    return ("{| hnodes := %s; reads := %s; writes := %s; drops := %s; renames := [%s]; wired := %s |}"
            % (g_list(a["hnodes"]), g_list(a["reads"]), g_list(a["writes"]), g_list(a["drops"]), rn, g_list(a["wired"])))


def g_astmts(hs) -> str:
    return "[" + "; ".join(g_astmt(a) for a in hs) + "]"


def show_roles(sql_holder: SQLLineageHolder) -> str:
    """the same canonical string as TableLevel.show_state"""
    g = sql_holder.table_lineage_graph
    s = sorted(dkey(t) for t in sql_holder.source_tables)
    t = sorted(dkey(t) for t in sql_holder.target_tables)
    i = sorted(dkey(t) for t in sql_holder.intermediate_tables)
    e = sorted(dkey(a) + ">" + dkey(b) for a, b in g.edges)
    n = sorted(dkey(x) for x in g.nodes)
    return "S=%s;T=%s;I=%s;E=%s;N=%s" % (",".join(s), ",".join(t), ",".join(i), ",".join(e), ",".join(n))


class StatementTap:
    """collects (sql, holder) for every statement the runner analyses"""

    def __init__(self):
        self.items = []
        self.session_events = []

    def __call__(self, event, **kw):
        if event == "runner.statement":
            self.items.append((kw["sql"], kw["holder"]))
        elif event.startswith("session."):
            self.session_events.append((event, kw))

    def __enter__(self):
        tapmod.ENABLED = True
        tapmod.set_listener(self)
        return self

    def __exit__(self, *a):
        tapmod.set_listener(None)
