"""Observation of the implementation's graphs: dataset keys, abstraction of a
statement holder to the table-level statement of Holder/TableLevel.v, helpers
to run scripts with the statement tap."""
from __future__ import annotations

import warnings

from sqllineage.core.holders import SQLLineageHolder, StatementLineageHolder
from sqllineage.core.models import Column, Path, SubQuery, Table
from sqllineage.utils import verif as tapmod

from common import coq_string

warnings.filterwarnings("ignore")


def dkey(n) -> str:
    if isinstance(n, Table):
        return "T:" + str(n)
    if isinstance(n, Path):
        return "P:" + str(n)
    raise TypeError(n)


def is_dataset(n) -> bool:
    return isinstance(n, (Table, Path))


def abstract_holder(h: StatementLineageHolder) -> dict:
    g = h.graph
    hn = [dkey(n) for n in g.nodes if is_dataset(n)]
    wired = []
    for n in g.nodes:
        if not is_dataset(n):
            continue
        nb = list(g.successors(n)) + list(g.predecessors(n))
        if any(not is_dataset(x) for x in nb):
            wired.append(dkey(n))
    return {
        "hnodes": hn,
        "reads": [dkey(t) for t in h.read],
        "writes": [dkey(t) for t in h.write],
        "drops": [dkey(t) for t in h.drop if is_dataset(t)],
        "renames": [(dkey(a), dkey(b)) for a, b in h.rename],
        "wired": wired,
        # dataset->dataset edges of the holder graph other than RENAME edges: the model assumes none
        "foreign_edges": [(dkey(a), dkey(b)) for a, b, d in g.edges(data=True)
                          if is_dataset(a) and is_dataset(b) and d.get("type") != "rename"],
    }


def g_list(xs) -> str:
    return "[" + "; ".join(coq_string(x) for x in xs) + "]"


def g_astmt(a: dict) -> str:
    rn = "; ".join(f"({coq_string(x)}, {coq_string(y)})" for x, y in a["renames"])
    return ("{| hnodes := %s; reads := %s; writes := %s; drops := %s; renames := [%s]; wired := %s |}"
            % (g_list(a["hnodes"]), g_list(a["reads"]), g_list(a["writes"]), g_list(a["drops"]), rn, g_list(a["wired"])))


def g_astmts(hs) -> str:
    return "[" + "; ".join(g_astmt(a) for a in hs) + "]"


def show_roles(sql_holder: SQLLineageHolder) -> str:
    """the same canonical string as TableLevel.show_state"""
    g = sql_holder.table_lineage_graph
    s = sorted(dkey(t) for t in sql_holder.source_tables)
    t = sorted(dkey(t) for t in sql_holder.target_tables)
    i = sorted(dkey(t) for t in sql_holder.intermediate_tables)
    e = sorted(dkey(a) + ">" + dkey(b) for a, b in g.edges)
    n = sorted(dkey(x) for x in g.nodes)
    return "S=%s;T=%s;I=%s;E=%s;N=%s" % (",".join(s), ",".join(t), ",".join(i), ",".join(e), ",".join(n))


class StatementTap:
    """collects (sql, holder) for every statement the runner analyses"""

    def __init__(self):
        self.items = []
        self.runners = []
        self.session_events = []

    def of_runner(self, lr):
        """the holders of the statements of this runner only (a scalar sub-query inside an expression
        makes the library start a nested runner, whose statements are not part of the script)"""
        return [it for it, r in zip(self.items, self.runners) if r is lr]

    def __call__(self, event, **kw):
        if event == "runner.statement":
            self.items.append((kw["sql"], kw["holder"]))
            self.runners.append(kw["runner"])
        elif event.startswith("session."):
            self.session_events.append((event, kw))

    def __enter__(self):
        tapmod.ENABLED = True
        tapmod.set_listener(self)
        return self

    def __exit__(self, *a):
        tapmod.set_listener(None)


# ---------------------------------------------------------------------------
# full graphs: serialisation to Gallina (NX/Graph.v, Holder/Build.v) and the
# implementation-side canonical strings that mirror Build.show_*
# ---------------------------------------------------------------------------
import hashlib


def _digest(s: str) -> str:
    return hashlib.sha1(s.encode("utf-8", "replace")).hexdigest()[:16]


def g_dataset(d) -> str:
    if isinstance(d, Table):
        return ("{| dk := KTable; deq := %s; dstr := %s; dschema := %s; draw := %s; dalias := %s; dquery := None |}"
                % (coq_string(str(d)), coq_string(str(d)), coq_string(str(d.schema)), coq_string(d.raw_name), coq_string(d.alias)))
    if isinstance(d, Path):
        return ("{| dk := KPath; deq := %s; dstr := %s; dschema := \"\"; draw := \"\"; dalias := \"\"; dquery := None |}"
                % (coq_string(str(d)), coq_string(str(d))))
    if isinstance(d, SubQuery):
        return ("{| dk := KSubq; deq := %s; dstr := %s; dschema := \"\"; draw := \"\"; dalias := %s; dquery := None |}"
                % (coq_string(_digest(d.query_raw)), coq_string(str(d)), coq_string(str(d))))
    raise TypeError(repr(d))


def g_node(n) -> str:
    if isinstance(n, (Table, Path, SubQuery)):
        return "NData " + g_dataset(n)
    if isinstance(n, Column):
        ps = "; ".join(g_dataset(p) for p in n.parent_candidates if p is not None)
        return "NCol {| craw := %s; cparents := [%s] |}" % (coq_string(n.raw_name), ps)
    if isinstance(n, str):
        return "NStr " + coq_string(n)
    raise TypeError(repr(n))


def g_graph(g) -> str:
    ns = []
    for n, attrs in g.nodes(data=True):
        a = "; ".join("(%s, %s)" % (coq_string(k), "true" if v is True else "false") for k, v in attrs.items()
                      if isinstance(v, bool))
        ns.append("(%s, [%s])" % (g_node(n), a))
    es = []
    for u, v, attrs in g.edges(data=True):
        idx = attrs.get("index")
        es.append("(%s, %s, {| etype := %s; eindex := %s |})"
                  % (g_node(u), g_node(v), coq_string(str(attrs.get("type", ""))),
                     "None" if idx is None else "Some %d" % idx))
    return "{| gnodes := [%s]; gedges := [%s] |}" % ("; ".join(ns), "; ".join(es))


def g_holder(h) -> str:
    rn = "; ".join("(%s, %s)" % (g_node(a), g_node(b)) for a, b in h.rename)
    return "{| hg := %s; h_renames := [%s] |}" % (g_graph(h.graph), rn)


def g_provider(truthy: bool, cols: dict) -> str:
    cs = "; ".join("(%s, [%s])" % (coq_string(t), "; ".join(coq_string(c) for c in cl)) for t, cl in cols.items())
    return "{| p_truthy := %s; p_cols := [%s] |}" % ("true" if truthy else "false", cs)


def canon_name(d, canon) -> str:
    """anonymous sub-queries are named subquery_<hash(text)> by the implementation; the model names them
    after the text itself"""
    if canon and isinstance(d, SubQuery) and d.alias == f"subquery_{hash(d)}":
        return "subquery_<" + d.query_raw + ">"
    return str(d)


def s_dataset(d, canon=False) -> str:
    return ("T:" if isinstance(d, Table) else "P:" if isinstance(d, Path) else "Q:") + canon_name(d, canon)


def col_name(c, canon=False) -> str:
    p = c.parent
    if p is not None and not isinstance(p, Path):
        return canon_name(p, canon) + "." + c.raw_name
    return c.raw_name


def s_node(n, canon=False) -> str:
    if isinstance(n, (Table, Path, SubQuery)):
        return s_dataset(n, canon)
    if isinstance(n, Column):
        # (Column.parent = None puts None into the parent set; it is not a candidate owner)
        # candidates are printed in the order of their canonical names (the implementation sorts them by printed name, which
        # for anonymous sub-queries contains a hash)
        cands = [s_dataset(p, canon) for p in n.parent_candidates if p is not None]
        return "C:" + col_name(n, canon) + "{" + ",".join(sorted(cands)) + "}"
    if canon and isinstance(n, str) and n.startswith("subquery_"):
        return "A:" + n   # replaced below when the owner is known
    return "A:" + str(n)


def s_graph(g, canon=False) -> str:
    anon = {}
    if canon:
        for n in g.nodes:
            if isinstance(n, SubQuery) and n.alias == f"subquery_{hash(n)}":
                anon[n.alias] = "subquery_<" + n.query_raw + ">"
            if isinstance(n, Column):
                for p in n._parent:
                    if isinstance(p, SubQuery) and p.alias == f"subquery_{hash(p)}":
                        anon[p.alias] = "subquery_<" + p.query_raw + ">"
    def sn(n):
        if isinstance(n, str) and n in anon:
            return "A:" + anon[n]
        return s_node(n, canon)
    ns = sorted(sn(n) + "[" + ",".join(sorted(k for k, v in a.items() if v is True)) + "]" for n, a in g.nodes(data=True))
    es = sorted(sn(u) + ">" + sn(v) + ":" + str(a.get("type", "")) for u, v, a in g.edges(data=True))
    return "N=" + ";".join(ns) + "#E=" + ";".join(es)


def s_roles(sh) -> str:
    f = lambda xs: ",".join(sorted(s_node(x) for x in xs))
    return "S=%s;T=%s;I=%s" % (f(sh.source_tables), f(sh.target_tables), f(sh.intermediate_tables))


def s_paths(paths, canon=False) -> str:
    return ";".join(sorted({"<".join(s_node(n, canon) for n in p) for p in paths}))


def table_parents(graphs) -> list:
    """every Table that occurs as a node or as a column's parent candidate"""
    out = {}
    for g in graphs:
        for n in g.nodes:
            if isinstance(n, Table):
                out[str(n)] = n
            if isinstance(n, Column):
                for p in n.parent_candidates:
                    if isinstance(p, Table):
                        out[str(p)] = p
    return list(out.values())
