"""C06 - column lineage is well-formed and consistent with table lineage.

Proof obligations: coq/theories/Props/C06.v (model Holder/Build.v: column_lineage,
all_simple_paths, node equality).  Tie T2/T4: every result of the corpus and of the
generators; I vs M on the combined graph and on the reported paths (all flag
combinations); S = the statement of C06 evaluated on the implementation's result
(harness/buildtie.check_paths)."""
from __future__ import annotations

import json

import astgen
import buildtie
import corpus
import gen_scripts
from common import Check, load_known, rng, seed, tier

CLASS_TO_FINDING = {"rename-drop": "K-C06-1", "scalar-subquery": "K-C06-2"}


def main() -> int:
    ck = Check("C06")
    ck.assumptions += ["Column objects are not mutated after insertion into a graph (monitored: every node of every result graph is looked up again)",
                       "ASCII SQL only"]
    ck.trusted += ["hand-written Gallina model Holder/Build.v (build, column_lineage, all_simple_paths on NX/Graph.v), tied by suite T2/T4 (this run)",
                   "harness/buildtie.py, harness/implgraph.py, harness/gen_scripts.py"]
    proofs_ok = ck.proofs()
    quick = tier() == "quick"
    r = rng("c06")
    recs = corpus.load()
    if quick:
        tp = [x for x in recs if x.get("origin", "").startswith("tpcds")]
        recs = [x for x in recs if not x.get("origin", "").startswith("tpcds")] + r.sample(tp, 6)
    recs = recs + gen_scripts.gen_records(r, 300 if quick else 4000) + \
        [{"sql": s, "dialect": "ansi", "metadata": None, "config": {}, "origin": "special"} for s in gen_scripts.SPECIAL]
    # single statements of the core-grammar generator (alias reuse across scopes, systematic FROM shapes)
    recs = recs + [{"sql": astgen.to_sql(s), "dialect": "ansi", "metadata": None, "config": {}, "silent": False, "origin": "generated-ast"}
                   for s in astgen.gen_batch(r, 350 if quick else 3000, (1, 2, 2), shapes=40 if quick else None, reuse=True)]
    res = buildtie.run(recs)
    disagreements, spec_failures = [], []
    known_hits = {}
    dist = {"records": len(recs), "skipped": 0, "analysis_errors": 0, "compared": 0, "with_paths": 0, "paths_total": 0,
            "multi_statement": 0, "with_metadata": 0}
    for x in res:
        ck.count()
        if "skip" in x:
            dist["skipped"] += 1
            continue
        if "error" in x:
            dist["analysis_errors"] += 1
            continue
        dist["compared"] += 1
        dist["with_paths"] += x["stats"]["paths"] > 0
        dist["paths_total"] += x["stats"]["paths"]
        dist["multi_statement"] += x["stats"]["statements"] > 1
        dist["with_metadata"] += x["stats"]["metadata"]
        if x["stats"]["paths"] > 0:
            ck.nontriv((x["rec"]["sql"], x["rec"].get("dialect"), json.dumps(x["rec"].get("metadata"), sort_keys=True)))
        case = {"sql": x["rec"]["sql"], "dialect": x["rec"].get("dialect"), "metadata": x["rec"].get("metadata"),
                "origin": x["rec"].get("origin", "tests")}
        hard = [f for f in x["wf"] if not f.get("class")]
        soft = [f for f in x["wf"] if f.get("class")]
        tie_bad = [p for p in buildtie.PARTS if x["model"].get(p) != x["impl"][p]]
        if hard:
            case["spec_failures"] = hard[:5]
            spec_failures.append(case)
        elif tie_bad:
            case["differs_in"] = tie_bad
            case["impl"] = {p: x["impl"][p][:3000] for p in tie_bad}
            case["model"] = {p: str(x["model"].get(p, x["model"]))[:3000] for p in tie_bad}
            disagreements.append(case)
        for f in soft:
            known_hits.setdefault(CLASS_TO_FINDING[f["class"]], dict(case, failure=f))
    # how much of what the implementation produced lies inside the hypotheses of the composition / projection theorems
    # (c04_pairs_are_the_composition, c06_paths_project_onto_tables): evaluated in Coq on the real holders
    from common import coq_eval
    dom = [x for x in res if "holders_gal" in x]
    flags = coq_eval("From SV Require Import Holder.CompDefs Holder.Composition.\nOpen Scope string_scope.",
                     ["((if c04_hyps %s then \"1\" else \"0\") ++ (if c06_hyps %s then \"1\" else \"0\"))%%string" % (x["holders_gal"], x["holders_gal"])
                      for x in dom], shard=60)
    dist["inside_c04_hyps"] = sum(f[:1] == "1" for f in flags)
    dist["inside_c06_hyps"] = sum(f[1:2] == "1" for f in flags)
    for x, f in zip(dom, flags):
        hard = [w for w in x["wf"] if not w.get("class")]
        if f[1:2] == "1" and hard and all(p in ("paths_default",) or True for p in buildtie.PARTS) and not [p for p in buildtie.PARTS if x["model"].get(p) != x["impl"][p]]:
            # inside the theorem's hypotheses, model = implementation, and yet the projection fails: impossible unless the
            # check's own oracle or the serialisation is wrong - report as a broken tie rather than stay silent
            disagreements.append({"sql": x["rec"]["sql"], "spec": "projection fails on a script inside c06_hyps although model and implementation agree",
                                  "failures": hard[:3]})
    ok = [x for x in res if "impl" in x and x["stats"]["paths"] > 0]
    if ok:
        ck.sample({"sql": ok[0]["rec"]["sql"][:300], "paths": ok[0]["impl"]["paths_default"][:400]})
        ck.sample({"sql": ok[-1]["rec"]["sql"][:300], "paths": ok[-1]["impl"]["paths_default"][:400]})
    known = {f["id"]: f for f in load_known() if f["property"] == "C06" and f["status"] == "known"}
    for kid, case in known_hits.items():
        if kid in known:
            ck.known(kid, known[kid]["what"] + " (e.g. %r: %s)" % (case["sql"][:100], case["failure"]["kind"]))
        else:
            case["spec"] = "defect class %s not listed in known_findings.json" % kid
            spec_failures.append(case)
    ck.notes["input_distribution"] = dist
    ck.coverage["disagreements_checked"] = len(disagreements)
    if spec_failures:
        c = spec_failures[0]
        c["how_to_replay"] = "cd /verif && VERIF_SEED=%d ./check C06 --tier %s" % (seed(), tier())
        c["all_failures"] = len(spec_failures)
        ck.violation(c, "spec")
    elif disagreements:
        c = disagreements[0]
        c["broken"] = "correspondence T2/T4 between Holder.Build (theorems c06_*) and sqllineage/core/holders.py"
        c["all_disagreements"] = len(disagreements)
        c["search"] = "path well-formedness, projection onto table lineage and node retrievability were evaluated on every result of this run; no failing input"
        ck.violation(c, "tie", no_input=True)
    if not proofs_ok:
        ck.violation({"broken": "proof obligations of Props/C06.v", "detail": ck.broken_obligation}, "proof", no_input=not spec_failures)
    return ck.finish(rule="every result of the harvested corpus, of %d generated scripts (1-4 statements, chains, with/without metadata), of core-grammar statements "
                          "with aliases reused across scopes and systematic FROM shapes (harness/astgen.gen_batch) + special cases; "
                          "non-trivial = distinct script with >=1 reported column path" % (300 if quick else 4000))


if __name__ == "__main__":
    raise SystemExit(main())
