"""C18 - the graph export is faithful to the lineage graph.

Proof obligations: coq/theories/Props/C18.v (model Holder/Build.v: to_cytoscape_*).
Tie T2/T4: every result of the corpus and of the script generators; the model is given
the very sub-graphs the implementation exports.  S = the statement of C18 evaluated
directly on the implementation's export (harness/buildtie.check_export)."""
from __future__ import annotations

import io
import json

import buildtie
import corpus
import gen_scripts
from common import Check, load_known, rng, seed, tier


def main() -> int:
    ck = Check("C18")
    ck.assumptions += ["Column objects are not mutated after insertion into a graph (node retrievability is monitored on every result)",
                       "ASCII SQL only (non-ASCII scripts are skipped and counted)"]
    ck.trusted += ["hand-written Gallina model Holder/Build.v (to_cytoscape_plain / to_cytoscape_compound, NX/Graph.v), tied by suite T2/T4 (this run)",
                   "harness/buildtie.py, harness/implgraph.py (graph serialisation), harness/gen_scripts.py"]
    proofs_ok = ck.proofs()
    quick = tier() == "quick"
    r = rng("c18")
    recs = corpus.load()
    if quick:
        tp = [x for x in recs if x.get("origin", "").startswith("tpcds")]
        recs = [x for x in recs if not x.get("origin", "").startswith("tpcds")] + r.sample(tp, 6)
    recs = recs + gen_scripts.gen_records(r, 250 if quick else 3000) + gen_scripts.gen_mixed_depth(r, 80 if quick else 1000) + \
        [{"sql": s, "dialect": "ansi", "metadata": None, "config": {}, "origin": "special"} for s in gen_scripts.SPECIAL]
    res = buildtie.run(recs, want_cy=True)
    disagreements, spec_failures, known_hits = [], [], []
    dist = {"records": len(recs), "skipped": 0, "analysis_errors": 0, "compared": 0, "origins": {}, "nodes_hist": {}}
    for x in res:
        ck.count()
        o = x["rec"].get("origin", "tests")
        o = "tpcds" if o.startswith("tpcds") else o
        dist["origins"][o] = dist["origins"].get(o, 0) + 1
        if "skip" in x:
            dist["skipped"] += 1
            continue
        if "error" in x:
            dist["analysis_errors"] += 1
            continue
        dist["compared"] += 1
        b = min(x["stats"]["nodes"] // 10 * 10, 200)
        dist["nodes_hist"][b] = dist["nodes_hist"].get(b, 0) + 1
        if x["stats"]["edges"] > 0:
            ck.nontriv((x["rec"]["sql"], x["rec"].get("dialect"), json.dumps(x["rec"].get("metadata"), sort_keys=True)))
        case = {"sql": x["rec"]["sql"], "dialect": x["rec"].get("dialect"), "metadata": x["rec"].get("metadata"),
                "origin": x["rec"].get("origin", "tests")}
        tie_ok = all(x["cy_model"][lvl] == x["cy_impl"][lvl] for lvl in ("table", "column"))
        fails = x["cy_spec"]
        hard = [f for f in fails if not (f["kind"] == "dup-id" and f["non_injective_str"])]
        soft = [f for f in fails if f["kind"] == "dup-id" and f["non_injective_str"]]
        if hard:
            case["spec_failures"] = hard
            case["export"] = {k: v[:3000] for k, v in x["cy_impl"].items()}
            spec_failures.append(case)
        elif not tie_ok:
            case["impl"] = x["cy_impl"]
            case["model"] = x["cy_model"]
            disagreements.append(case)
        elif soft:
            case["dup"] = soft
            known_hits.append(case)
    ok = [x for x in res if "cy_impl" in x]
    if ok:
        ck.sample({"sql": ok[0]["rec"]["sql"][:300], "export_column_level": ok[0]["cy_impl"]["column"][:400]})
        ck.sample({"sql": ok[-1]["rec"]["sql"][:300], "export_table_level": ok[-1]["cy_impl"]["table"][:400]})

    # POST /lineage returns the same export
    import logging
    logging.disable(logging.CRITICAL)
    from sqllineage.drawing import app
    from sqllineage.runner import LineageRunner
    from sqllineage.utils.constant import LineageLevel
    n_web = 0
    for x in ok[:: max(1, len(ok) // (25 if quick else 150))]:
        if x["rec"].get("metadata") or x["rec"].get("dialect") == "non-validating" or x["rec"].get("config", {}).get("DEFAULT_SCHEMA"):
            continue
        body = json.dumps({"e": x["rec"]["sql"], "dialect": x["rec"].get("dialect", "ansi")}).encode()
        got = {}
        out = app({"REQUEST_METHOD": "POST", "PATH_INFO": "/lineage", "CONTENT_LENGTH": str(len(body)), "wsgi.input": io.BytesIO(body)},
                  lambda s, h: got.setdefault("status", s))
        if not got["status"].startswith("200"):
            continue
        data = json.loads(b"".join(out))
        lr = LineageRunner(x["rec"]["sql"], dialect=x["rec"].get("dialect", "ansi"))
        n_web += 1
        ck.count()
        strip = lambda els: sorted(json.dumps({k: v for k, v in e["data"].items() if k != "id" or "source" not in e["data"]}, sort_keys=True) for e in els)
        if strip(data["dag"]) != strip(lr.to_cytoscape()) or strip(data["column"]) != strip(lr.to_cytoscape(LineageLevel.COLUMN)):
            spec_failures.append({"suite": "web", "sql": x["rec"]["sql"], "spec": "POST /lineage returns the runner's export"})
    dist["web_lineage_requests"] = n_web

    known = {f["id"]: f for f in load_known() if f["property"] == "C18" and f["status"] == "known"}
    if known_hits:
        if "K-C18-1" in known:
            ck.known("K-C18-1", known["K-C18-1"]["what"] + " (%d results of this run, e.g. %r)" % (len(known_hits), known_hits[0]["sql"][:120]))
        else:
            c = known_hits[0]
            c["spec"] = "duplicate node ids (class not listed in known_findings.json)"
            spec_failures.append(c)
    ck.notes["input_distribution"] = dist
    ck.coverage["disagreements_checked"] = len(disagreements)
    if spec_failures:
        c = spec_failures[0]
        c["how_to_replay"] = "cd /verif && VERIF_SEED=%d ./check C18 --tier %s" % (seed(), tier())
        c["all_failures"] = len(spec_failures)
        ck.violation(c, "spec")
    elif disagreements:
        c = disagreements[0]
        c["broken"] = "correspondence T2/T4 between Holder.Build.to_cytoscape_* (theorems c18_*) and sqllineage/io.py"
        c["all_disagreements"] = len(disagreements)
        c["search"] = "referential integrity, exactness, uniqueness and the text summary were evaluated on every export of this run; no failing input"
        ck.violation(c, "tie", no_input=True)
    if not proofs_ok:
        ck.violation({"broken": "proof obligations of Props/C18.v", "detail": ck.broken_obligation}, "proof", no_input=not spec_failures)
    return ck.finish(rule="every result of the harvested corpus (test-suite SQL under the dialects the tests name%s) and of %d generated scripts "
                          "(17 select bodies x 5 wrappers + DDL/DML, 1-4 statements, with/without metadata) + special cases, at both export levels; "
                          "non-trivial = distinct script whose graph has >=1 edge" % (" + 6 TPC-DS" if quick else " + 99 TPC-DS", 250 if quick else 3000))


if __name__ == "__main__":
    raise SystemExit(main())
