"""C16 - identifiers denote the same entity wherever they appear.

Proof obligations: coq/theories/Props/C16.v (models Ident/Escape.v, Ident/Positions.v).
Tie T0: exhaustive identifier spellings through escape_identifier_name / Schema /
Table / Path / Column and through real SQL at every syntactic position, per dialect
quoting rule.  I = implementation, M = model (escape applied k times, k per
position), S = the property's reading (norm = one normalisation everywhere).
"""
from __future__ import annotations

import itertools
import warnings

from common import Check, coq_eval, coq_string, load_known, rng, tier, seed

from sqllineage.config import SQLLineageConfig
from sqllineage.core.models import Column, Path, Schema, SubQuery, Table
from sqllineage.exceptions import SQLLineageException
from sqllineage.runner import LineageRunner
from sqllineage.utils.helpers import escape_identifier_name

warnings.filterwarnings("ignore")
HEADER = "From SV Require Import Ident.Escape Ident.Positions.\nOpen Scope string_scope."

WORDS = ["ab", "Ab", "AB", "aB", "a_b1", "Z"]
QUOTES = {"none": ("", ""), "dq": ('"', '"'), "bt": ("`", "`"), "br": ("[", "]"), "sq": ("'", "'")}
DIALECT_QUOTES = {"ansi": ["none", "dq"], "mysql": ["none", "bt"], "tsql": ["none", "br", "dq"],
                  "bigquery": ["none", "bt"], "postgres": ["none", "dq"], "sparksql": ["none", "bt"]}


def spell(word, q):
    a, b = QUOTES[q]
    return a + word + b


def odd_spellings():
    return ['"a`b"', '`a"b`', "\"a'b\"", '""', '"', "a\"b", "[a]b]", "[[a]]", "[]", "[", "]a[", "'`\"x\"`'",
            "`\"X\"`", "\"`X`\"", "a b", " A ", "A.b", "\"A.b\"", "\"A\".\"B\"", "[A].[b]", "a.B.c", "a.b.c.d", "\"a.b\".c.d.e",
            "", ".", "a.", ".a", "..", "A..b"]


def safe(f, *a, **k):
    try:
        return f(*a, **k)
    except SQLLineageException:
        return "ERR"
    except Exception as e:
        return "X:" + type(e).__name__


def run(sql, dialect):
    lr = LineageRunner(sql, dialect=dialect)
    return lr, list(lr.source_tables), list(lr.target_tables), lr.get_column_lineage()


POSITIONS = ["PSourceTable", "PTargetTable", "PSchema", "PColTarget", "PColSource", "PColList"]


def sql_probe(sp, dialect):
    """returns {position: reported name} extracted from real analyses, plus chain/alias observations"""
    out = {}
    _, s, t, c = run(f"insert into tgt select c from {sp}", dialect)
    out["PSourceTable"] = s[0].raw_name if len(s) == 1 else "?%d" % len(s)
    _, s, t, c = run(f"insert into {sp} select c from src", dialect)
    out["PTargetTable"] = t[0].raw_name if len(t) == 1 else "?%d" % len(t)
    _, s, t, c = run(f"insert into tgt select c from {sp}.tab", dialect)
    out["PSchema"] = s[0].schema.raw_name if len(s) == 1 else "?%d" % len(s)
    _, s, t, c = run(f"insert into tgt select {sp} from src", dialect)
    out["PColTarget"] = c[0][-1].raw_name if len(c) == 1 else "?%d" % len(c)
    out["PColSource"] = c[0][0].raw_name if len(c) == 1 else "?%d" % len(c)
    _, s, t, c = run(f"insert into tgt ({sp}) select c from src", dialect)
    out["PColList"] = c[0][-1].raw_name if len(c) == 1 else "?%d" % len(c)
    # qualifier and alias resolution, CTE name, chain across statements (S / M observations)
    _, s, t, c = run(f"insert into tgt select {sp}.c from {sp}, other", dialect)
    out["qualifier_resolves"] = (len(c) == 1 and c[0][0].parent is not None and
                                 str(c[0][0].parent) == str([x for x in s if x.raw_name != "other"][0]))
    _, s, t, c = run(f"insert into tgt select {sp}.c from src as {sp} join o on 1 = 1", dialect)
    out["alias_resolves"] = (len(c) == 1 and str(c[0][0]) == "<default>.src.c")
    _, s, t, c = run(f"insert into tgt with {sp} as (select c from src) select c from {sp}", dialect)
    out["cte_local"] = ([str(x) for x in s] == ["<default>.src"])
    # a qualifier with several parts (schema.table.column) denotes the FROM item spelled the same way
    ok = True
    for frm in (f"sch.{sp}", f"{sp}.tab", f"{sp}.{sp}"):
        for more in ("", ", other"):
            _, s, t, c = run(f"insert into tgt select {frm}.c from {frm}{more}", dialect)
            src = [x for x in s if x.raw_name != "other"]
            ok = ok and len(c) == 1 and len(src) == 1 and c[0][0].parent is not None and str(c[0][0].parent) == str(src[0])
    _, s, t, c = run(f"create table {sp}.{sp} as select p as c from raw; insert into fin select {sp}.{sp}.c from {sp}.{sp}", dialect)
    ok = ok and any(len(p) == 3 and str(p[0]) == "<default>.raw.p" and str(p[-1]) == "<default>.fin.c" for p in c)
    out["dotted_qualifier_resolves"] = ok
    _, s, t, c = run(f"insert into mid select {sp} from src; insert into fin select {sp} from mid", dialect)
    out["chain_found"] = any(len(p) == 3 and str(p[0]).startswith("<default>.src.") and str(p[-1]).startswith("<default>.fin.") for p in c)
    return out


def pair_probe(sp1, sp2, dialect):
    """two differently normalised spellings of tables in one FROM scope: a qualifier spelled like one of
    them must denote that one, in either order and join style"""
    bad = []
    for frm in (f"{sp1}, {sp2}", f"{sp2}, {sp1}", f"{sp1} join {sp2} on 1 = 1", f"{sp2} join {sp1} on 1 = 1"):
        for q in (sp1, sp2):
            sql = f"insert into tgt select {q}.c from {frm}"
            _, s, t, c = run(sql, dialect)
            want = escape_identifier_name(q)
            got = [x[0].parent.raw_name if x[0].parent is not None else None for x in c]
            if got != [want]:
                bad.append({"sql": sql, "qualifier_denotes": got, "expected_table": want})
    return bad


def main() -> int:
    ck = Check("C16")
    ck.assumptions += ["ASCII identifiers only", "the number of normalisations applied per syntactic position (Ident/Positions.v) is read from the code and tied by this run"]
    ck.trusted += ["hand-written Gallina models Ident/Escape.v (escape_identifier_name, Schema, Table) and Ident/Positions.v, tied by suite T0 (this run)",
                   "harness/c16.py"]
    proofs_ok = ck.proofs()
    quick = tier() == "quick"
    r = rng("c16")
    disagreements, spec_failures = [], []
    known_hits = {}
    dist = {"escape": 0, "schema": 0, "table": 0, "eq_hash_pairs": 0, "sql_probes": 0, "per_dialect": {}}

    # ---- T0a: escape on every spelling ------------------------------------------------
    spellings = [spell(w, q) for w in WORDS for q in QUOTES] + odd_spellings()
    for w in WORDS[:3]:
        for q1, q2 in itertools.product(["dq", "bt", "sq", "br"], repeat=2):
            a1, b1 = QUOTES[q1]
            a2, b2 = QUOTES[q2]
            spellings.append(a1 + a2 + w + b2 + b1)
    spellings = list(dict.fromkeys(spellings))
    impl = [safe(escape_identifier_name, s) for s in spellings]
    model = coq_eval(HEADER, [f"escape {coq_string(s)}" for s in spellings])
    for s, i, m in zip(spellings, impl, model):
        ck.count()
        dist["escape"] += 1
        ck.nontriv(("escape", s))
        if i != m:
            disagreements.append({"suite": "T0-escape", "input": s, "impl": i, "model": m})
    # S on escape: unquoted case-insensitive; quoted keep case and lose only the quotes
    for w in WORDS:
        for v in {w, w.lower(), w.upper(), w.swapcase()}:
            ck.count()
            if safe(escape_identifier_name, v) != safe(escape_identifier_name, w):
                spec_failures.append({"suite": "T0-escape", "spec": "unquoted identifiers compare case-insensitively",
                                      "inputs": [w, v]})
        for q in ("dq", "bt", "br"):
            ck.count()
            if safe(escape_identifier_name, spell(w, q)) != w:
                spec_failures.append({"suite": "T0-escape", "spec": "a quoted identifier keeps its case and loses only the quotes",
                                      "input": spell(w, q), "impl": safe(escape_identifier_name, spell(w, q))})

    # ---- T0b: Schema / Table constructors ---------------------------------------------
    names = []
    parts = [spell(w, q) for w in ["ab", "Ab"] for q in ["none", "dq", "bt", "br"]]
    for n in (1, 2, 3, 4):
        for combo in itertools.product(parts, repeat=n) if n <= 2 else [tuple(r.choice(parts) for _ in range(n)) for _ in range(60)]:
            names.append(".".join(combo))
    names += odd_spellings()
    # a whole dotted path inside ONE pair of quotes, upper case in any part
    whole = [o + ".".join(ps) + c for o, c in (('"', '"'), ("`", "`"), ("[", "]"))
             for ps in itertools.product(["ab", "Ab"], repeat=3)] + ['"Ab.cd"', '"ab.Cd"', '`Pr.Raw.Src.x`'[:-3] + '`']
    names += whole
    names = list(dict.fromkeys(names))
    cfgs = ["", "ods", "\"Ods\""]
    rows = []
    for cfg in cfgs:
        for n in names:
            for alias in (None, "Al", '"Al"'):
                for sch in (None, "Sx"):
                    if cfg:
                        with SQLLineageConfig(DEFAULT_SCHEMA=cfg):
                            schema_arg = Schema(sch) if sch else None
                            t = safe(lambda: Table(n, schema_arg, alias=alias) if (schema_arg is not None and alias) else
                                     Table(n, schema_arg) if schema_arg is not None else
                                     Table(n, alias=alias) if alias else Table(n))
                            sraw = schema_arg.raw_name if schema_arg is not None else None
                    else:
                        schema_arg = Schema(sch) if sch else None
                        t = safe(lambda: Table(n, schema_arg, alias=alias) if (schema_arg is not None and alias) else
                                 Table(n, schema_arg) if schema_arg is not None else
                                 Table(n, alias=alias) if alias else Table(n))
                        sraw = schema_arg.raw_name if schema_arg is not None else None
                    i = t if isinstance(t, str) else f"{t}|{t.alias}"
                    rows.append((cfg, n, sraw, alias, i))
    g_opt = lambda x: "None" if x is None else f"(Some {coq_string(x)})"
    model = coq_eval(HEADER, [f"show_table (table_of {coq_string(cfg)} {coq_string(cfg)} {coq_string(n)} {g_opt(sraw)} {g_opt(alias)})"
                              for cfg, n, sraw, alias, _ in rows], shard=500)
    for (cfg, n, sraw, alias, i), m in zip(rows, model):
        ck.count()
        dist["table"] += 1
        if "." in n:
            ck.nontriv(("table", cfg, n, sraw, alias))
        if i != m:
            disagreements.append({"suite": "T0-table", "default_schema": cfg, "name": n, "schema_arg": sraw, "alias": alias,
                                  "impl": i, "model": m})
        if n in whole and "." in n and sraw is None and not i.startswith("ERR"):
            # S: a quoted identifier keeps its case and loses only the quotes - every part of the path
            if i.split("|")[0] != n[1:-1]:
                case = {"suite": "T0-table", "spec": "a quoted identifier keeps its case and loses only the quotes",
                        "name": n, "default_schema": cfg, "alias": alias, "impl": i, "expected": n[1:-1], "dialect": "-", "spelling": n}
                if n.startswith("[") and i.split("|")[0] == n.lower():
                    known_hits.setdefault("K-C16-3", case)      # recorded: brackets around a dotted path
                else:
                    spec_failures.append(case)
    srows = []
    for cfg in cfgs:
        for n in [None, ""] + parts + ["<default>", "A.b"]:
            if cfg:
                with SQLLineageConfig(DEFAULT_SCHEMA=cfg):
                    i = safe(lambda: str(Schema(n)) if n is not None else str(Schema()))
            else:
                i = safe(lambda: str(Schema(n)) if n is not None else str(Schema()))
            srows.append((cfg, n, i))
    model = coq_eval(HEADER, [f"schema_of {coq_string(cfg)} {g_opt(n)}" for cfg, n, _ in srows])
    for (cfg, n, i), m in zip(srows, model):
        ck.count()
        dist["schema"] += 1
        if i != m:
            disagreements.append({"suite": "T0-schema", "default_schema": cfg, "name": n, "impl": i, "model": m})

    # ---- S: entities that compare equal hash equally ------------------------------------
    def entities(sp):
        out = [safe(Schema, sp), safe(Table, sp), safe(Path, sp), SubQuery(None, sp, None), SubQuery(None, sp, "x"), Column(sp) if sp else None]
        c = safe(Column, sp or "c")
        if not isinstance(c, str):
            c.parent = Table("s.t")
            out.append(c)
        c2 = safe(Column, sp or "c")
        if not isinstance(c2, str):
            c2.parent = Table("s.t")
            c2.parent = Table("s.u")
            out.append(c2)
        return [e for e in out if e is not None and not isinstance(e, str)]
    pool = []
    for sp in [spell(w, q) for w in ["ab", "Ab", "AB"] for q in ["none", "dq", "bt", "br"]] + ["s.ab", "S.AB", '"S".ab', "x.s.ab"]:
        pool += entities(sp)
    for a, b in itertools.combinations(pool, 2):
        ck.count()
        dist["eq_hash_pairs"] += 1
        if a == b and hash(a) != hash(b):
            spec_failures.append({"suite": "T0-eq-hash", "spec": "entities that compare equal hash equally",
                                  "a": repr(a), "b": repr(b)})

    # ---- T0-SQL: positions, per dialect quoting rule --------------------------------------
    dialects = ["ansi", "mysql", "tsql"] if quick else list(DIALECT_QUOTES)
    probes = []
    for d in dialects:
        for q in DIALECT_QUOTES[d]:
            for w in (WORDS[:4] if quick else WORDS):
                probes.append((d, spell(w, q)))
    obs = []
    for d, sp in probes:
        try:
            o = sql_probe(sp, d)
        except Exception as e:
            o = {"error": type(e).__name__ + ": " + str(e)[:100]}
        obs.append(o)
        dist["sql_probes"] += 1
        dist["per_dialect"][d] = dist["per_dialect"].get(d, 0) + 1
    exprs, idx = [], []
    for k, ((d, sp), o) in enumerate(zip(probes, obs)):
        if "error" in o:
            continue
        for p in POSITIONS:
            exprs.append(f"show_pos {p} {coq_string(sp)}")
            idx.append((k, p))
        exprs.append(f"if chain_found {coq_string(sp)} then \"1\" else \"0\"")
        idx.append((k, "chain_found"))
        exprs.append(f"norm {coq_string(sp)}")
        idx.append((k, "norm"))
    res = coq_eval(HEADER, exprs, shard=400)
    mod = {}
    for (k, p), v in zip(idx, res):
        mod.setdefault(k, {})[p] = v
    for k, ((d, sp), o) in enumerate(zip(probes, obs)):
        ck.count()
        case = {"suite": "T0-sql-positions", "dialect": d, "spelling": sp, "impl": o, "model": mod.get(k)}
        if "error" in o:
            disagreements.append(case)
            continue
        ck.nontriv(("sql", d, sp))
        m = mod[k]
        norm = m["norm"]
        tie_ok = all(o[p] == m[p] for p in POSITIONS) and o["chain_found"] == (m["chain_found"] == "1")
        spec_ok = all(o[p] == norm for p in POSITIONS) and o["chain_found"] and o["qualifier_resolves"] and o["alias_resolves"] and o["cte_local"] and o["dotted_qualifier_resolves"]
        if spec_ok:
            continue
        # the property fails on this spelling: is it exactly the recorded defect (model = implementation)?
        quoted_upper = sp[0] in "\"`[" and any(ch.isupper() for ch in sp)
        wrong = sorted(p for p in POSITIONS if o[p] != norm) + ([] if o["chain_found"] else ["chain_found"]) + \
            [x for x in ("qualifier_resolves", "alias_resolves", "cte_local", "dotted_qualifier_resolves") if not o[x]]
        recorded = {"PSchema": "K-C16-2", "PColSource": "K-C16-1", "chain_found": "K-C16-1"}
        if tie_ok and quoted_upper and all(w in recorded for w in wrong):
            for w in wrong:
                known_hits.setdefault(recorded[w], case)
        else:
            case["spec"] = {"norm": norm, "wrong_positions": wrong}
            spec_failures.append(case)
            if not tie_ok:
                disagreements.append(case)
    # two spellings in one scope (S only)
    dist["pair_probes"] = 0
    for d in dialects:
        qs = DIALECT_QUOTES[d]
        for w in (["Ab", "AB"] if quick else WORDS[:4]):
            sps = [spell(w, q) for q in qs] + [spell(w.lower(), q) for q in qs if q != "none"]
            for sp1, sp2 in itertools.combinations(list(dict.fromkeys(sps)), 2):
                if escape_identifier_name(sp1) == escape_identifier_name(sp2):
                    continue
                ck.count()
                dist["pair_probes"] += 1
                try:
                    bad = pair_probe(sp1, sp2, d)
                except Exception as e:
                    bad = [{"error": type(e).__name__ + ": " + str(e)[:100]}]
                if bad:
                    spec_failures.append({"suite": "T0-sql-pairs", "dialect": d, "spellings": [sp1, sp2], "failures": bad,
                                          "spec": "a qualifier spelled like a FROM item denotes that item"})
    ck.sample({"dialect": probes[1][0], "spelling": probes[1][1], "impl": obs[1]})
    ck.sample({"spelling": spellings[7], "escape": impl[7]})

    known = {f["id"]: f for f in load_known() if f["property"] == "C16" and f["status"] == "known"}
    # ---- letters outside ASCII (the Coq model is ASCII only; this stream is the property's own oracle on the implementation):
    # unquoted identifiers compare case-insensitively whatever the alphabet, in every position, per dialect that accepts them
    uni_words = ["t\u00e1bla", "a\u00f1o", "r\u00e9sum\u00e9", "\u00e9", "donn\u00e9es_x", "\u0442\u0430\u0431\u043b\u0438\u0446\u0430", "\u00f8l", "z\u00fcrich1"]
    dist["non_ascii_probes"] = 0
    for w in (uni_words[:5] if quick else uni_words):
        lo = w.lower()
        variants = [v for v in dict.fromkeys([w.upper(), w.title(), w[0].upper() + w[1:], w[:-1] + w[-1].upper()]) if v != lo and v.lower() == lo]
        for v in variants:
            ck.count()
            bad = None
            if escape_identifier_name(v) != escape_identifier_name(lo):
                bad = "escape_identifier_name differs between the two spellings"
            elif not (Table(v) == Table(lo) and hash(Table(v)) == hash(Table(lo)) and Schema(v) == Schema(lo)
                      and hash(Schema(v)) == hash(Schema(lo)) and Table(v + "." + v) == Table(lo + "." + lo)):
                bad = "Table / Schema of the two spellings are not equal (or hash differently)"
            if bad:
                spec_failures.append({"suite": "non-ascii-case", "spelling": v, "lower_case": lo, "spec": "unquoted identifiers compare case-insensitively: " + bad})
                continue
            for d in (("postgres", "non-validating") if quick else ("postgres", "tsql", "oracle", "duckdb", "non-validating")):
                try:
                    o_lo = sql_probe(lo, d)
                except Exception:      # noqa  - the dialect does not accept such identifiers unquoted
                    continue
                dist["non_ascii_probes"] += 1
                ck.nontriv(("non-ascii", d, v))
                try:
                    o_v = sql_probe(v, d)
                except Exception as e:      # noqa
                    o_v = {"error": type(e).__name__}
                link = safe(lambda: run(f"create table {v} as select {v} from src; insert into fin select {lo} from {lo}", d)[3])
                chain = isinstance(link, list) and any(len(pth) == 3 and str(pth[-1]).startswith("<default>.fin.") and str(pth[0]).startswith("<default>.src.") for pth in link)
                if o_v != o_lo or not chain:
                    spec_failures.append({"suite": "non-ascii-case", "dialect": d, "spelling": v, "lower_case": lo,
                                          "observations_for_spelling": o_v, "observations_for_lower_case": o_lo,
                                          "column_written_in_one_case_found_again_in_the_other": chain,
                                          "spec": "unquoted identifiers compare case-insensitively in every position and across statements"})
    for kid, case in known_hits.items():
        if kid in known:
            ck.known(kid, known[kid]["what"] + " (replayed: dialect=%s spelling=%s)" % (case["dialect"], case["spelling"]))
        else:
            case["spec"] = "defect class not listed in known_findings.json"
            spec_failures.append(case)

    ck.notes["input_distribution"] = dist
    ck.coverage["disagreements_checked"] = len(disagreements)
    hint = "cd /verif && VERIF_SEED=%d ./check C16 --tier %s" % (seed(), tier())
    if spec_failures:
        c = spec_failures[0]
        c["how_to_replay"] = hint
        c["all_failures"] = len(spec_failures)
        ck.violation(c, "spec")
    elif disagreements:
        c = disagreements[0]
        c["broken"] = "correspondence T0 between Ident.Escape / Ident.Positions (theorems c16_*) and sqllineage helpers.py, core/models.py, sqlfluff/models.py"
        c["all_disagreements"] = len(disagreements)
        ck.violation(c, "tie", no_input=True)
    if not proofs_ok:
        ck.violation({"broken": "proof obligations of Props/C16.v", "detail": ck.broken_obligation}, "proof", no_input=not spec_failures)
    return ck.finish(
        rule="escape: %d spellings (6 words x 5 quote styles, nested quotes, odd strings); Table/Schema constructors: names of 1-4 parts x "
             "quote styles x default-schema setting x alias x schema argument; SQL: every spelling at 6 syntactic positions + qualifier, alias, "
             "CTE, two-statement chain, per dialect quoting rule (%s); non-trivial = distinct spelling (with a dot for tables)" % (len(spellings), ",".join(dialects)))


if __name__ == "__main__":
    raise SystemExit(main())
