"""Writes MANIFEST.json from the table below (kept in one place so it stays valid)."""
import json
from pathlib import Path

VERIF = Path(__file__).resolve().parent.parent
props = [json.loads(l) for l in (VERIF / "properties.jsonl").read_text().splitlines() if l.strip()]

CLAIMED = {
    "C15": {
        "text": "Machine-checked theorems (Coq 8.16.1, axiom-free) about a Gallina model of the configuration loader: "
                "non-interference of threads for every operation history and interleaving (c15_local, c15_interleaving), "
                "scope semantics incl. exceptional exit and identifier reuse (c15_scope), rejected operations are no-ops "
                "(c15_reject), type coercion (c15_coerce_type).  The model is tied to sqllineage/config.py on every run by "
                "evaluating it inside Coq (vm_compute) on the same histories and thread programs the real loader executes.",
        "design_ref": "DESIGN.md section 6 C15, Appendix A",
        "note": "Trusted: Coq kernel + vm_compute; hand-written model Config/Model.v (modelled, not verified, tied by differential "
                "correspondence); harness. Assumes CPython dict/set method atomicity (exercised by tap-pre-empted real threads, "
                "not proved); values restricted to str/int/bool.",
        "technique": "Coq proof (induction over op histories, non-interference) + model/code correspondence via vm_compute",
    },
    "C17": {
        "text": "Machine-checked theorems (axiom-free) about a Gallina model of the web handler's path logic on segment lists: "
                "every POST request that passes the root check reads only a path that resolves under the root, for all roots, working "
                "directories and spellings (c17_post_contained); GET without '..' stays under the static folder (c17_get_contained); "
                "lexical resolution is a normal form, idempotent and cancels x/.. (c17_resolve_*).  The model is tied to sqllineage/drawing.py "
                "by sending every enumerated request to the real WSGI app against a scratch tree with marker files outside the root.",
        "design_ref": "DESIGN.md section 6 C17, Appendix B",
        "note": "Trusted: Coq kernel + vm_compute; hand-written model Web/PathModel.v of pathlib parse/absolute/resolve/parent/is_relative_to "
                "(modelled, tied differentially); harness. Assumes no symlinks under the roots; WSGI server/HTTP layer not modelled.",
        "technique": "Coq proof (induction over segment lists) + exhaustive request enumeration against the real app",
    },
    "C16": {
        "text": "Machine-checked theorems (axiom-free) about a Gallina model of escape_identifier_name and the Schema/Table constructors: "
                "case-insensitivity of unquoted identifiers, quoted identifiers keep case and lose only quotes (each quote style), last-dot split "
                "and part limit, idempotence on stable names, and the position theorem (every syntactic position reports the same name and a "
                "two-statement chain is found whenever the once-normalised name is stable); refutations for quoted upper-case names (known "
                "findings K-C16-1/2).  Tied by exhaustive spellings through the real functions and through real SQL at every position per dialect.",
        "design_ref": "DESIGN.md section 6 C16",
        "note": "Trusted: Coq kernel + vm_compute; hand-written models Ident/Escape.v, Ident/Positions.v (the per-position count of "
                "normalisations is read from the code and tied differentially); ASCII identifiers only. The unguarded position statement is "
                "false of the code (K-C16-1, K-C16-2 recorded, not repaired).",
        "technique": "Coq proof (string induction, 256-case character sweeps) + exhaustive spelling x position correspondence",
    },
    "C03": {
        "text": "Machine-checked theorems (axiom-free) about a Gallina model of SQLLineageHolder._build_digraph and the role accessors at dataset "
                "level: for scripts without DROP/RENAME the edge set and the source/target/intermediate classification equal the property's "
                "own definition computed from the set of statements (hence order- and repetition-invariance), DROP removes only isolated "
                "tables and never disturbs others, a single RENAME to a fresh name puts y in x's place; refutation for chained RENAME pairs "
                "(K-C03-1).  Tied by all histories of abstract statements built through the public holder API and by generated SQL scripts "
                "whose per-statement holders (statement tap) are abstracted and fed to the model.",
        "design_ref": "DESIGN.md section 6 C03",
        "note": "Trusted: Coq kernel + vm_compute; hand-written model Holder/TableLevel.v and the harness abstraction of a holder graph "
                "(dataset nodes, read/write/drop/rename, datasets with non-dataset neighbours). Column-level part of _build_digraph is not in "
                "this model.",
        "technique": "Coq proof (fold invariant over statement lists; executable spec) + exhaustive abstract histories + SQL scripts",
    },
    "C18": {
        "text": "Machine-checked theorems (axiom-free) about a Gallina model of io.to_cytoscape on insertion-ordered graphs keyed by Python "
                "equality: every edge endpoint and every compound-parent reference is the id of an exported node, every column carries a "
                "parent, nodes/edges are exported exactly once each, owners once up to equality, ids unique when printing is injective "
                "(partial; the unguarded statement is refuted: K-C18-1), summary lists sorted with the same members.  Tied by running the model "
                "inside Coq on the very sub-graphs the implementation exports, for every corpus and generated result, plus POST /lineage.",
        "design_ref": "DESIGN.md section 6 C18",
        "note": "Trusted: Coq kernel + vm_compute; hand-written models NX/Graph.v + Holder/Build.v; harness graph serialisation. "
                "Duplicate ids for owners that print alike are a recorded finding (K-C18-1).",
        "technique": "Coq proof (list/dictionary invariants) + model evaluated on the implementation's own graphs",
    },
    "C06": {
        "text": "Machine-checked theorems (axiom-free) about a Gallina model of get_column_lineage / all_simple_paths on the full lineage "
                "graph: every reported path has >=2 nodes (fix F4), is a duplicate-free chain of edges from an in-degree-0 column to an "
                "out-degree-0 table-owned column; path enumeration is sound and complete; nodes are retrievable by equality, equality is an "
                "equivalence, a resolved column has one owner.  The model of _build_digraph + paths is tied by feeding it the implementation's "
                "per-statement holders (statement tap) for every corpus and generated script and comparing graph, roles and paths; projection "
                "onto table lineage is evaluated on the implementation directly (S), with two recorded defect classes (K-C06-1/2).",
        "design_ref": "DESIGN.md section 6 C06",
        "note": "Trusted: Coq kernel + vm_compute; hand-written models NX/Graph.v + Holder/Build.v; harness serialisation of holder graphs. "
                "The projection clause is checked, not proved (it depends on how extractors populate holders).",
        "technique": "Coq proof (induction on fuel/paths) + holder-level correspondence on corpus and generated scripts",
    },
    "C12": {
        "text": "Machine-checked theorems (axiom-free) about a Gallina model of MetaDataProvider/MetaDataSession and the statement loop of "
                "LineageRunner._eval, for an arbitrary per-statement analysis function: the session is empty after every run incl. failing "
                "ones, a reused provider answers as a fresh one, the outcome of a run is independent of the history of runs.  Tied by histories "
                "of runs (failure at every position, provider faults at every lookup index, falsy and truthy providers, the shared default "
                "provider) on the real runner, plus shuffled corpus histories and 16-thread pools.",
        "design_ref": "DESIGN.md section 6 C12",
        "note": "Trusted: Coq kernel + vm_compute; hand-written model Provider/Session.v (+ table-driven analyser Provider/Abstract.v for the "
                "tie); thread non-interference is exercised (pools), not proved here beyond C15's locality; sqlfluff/SQLAlchemy caches not modelled.",
        "technique": "Coq proof (state-machine invariant over run histories) + exhaustive failure-point histories",
    },
}

checks = []
for pid, c in CLAIMED.items():
    checks.append({
        "property_id": pid,
        "quick_cmd": f"./check {pid} --tier quick",
        "thorough_cmd": f"./check {pid} --tier thorough",
        "evidence_file": f"/verif/evidence/{pid}.json",
        "engine": "coq-model-correspondence",
        "level_claimed": {"category": "proof", "text": c["text"], "design_ref": c["design_ref"]},
        "level_note": c["note"],
        "technique": c["technique"],
    })

na = [{"property_id": p["id"], "reason": "check not built yet in this round (planned, see DESIGN.md section 9); no other technique substituted"}
      for p in props if p["id"] not in CLAIMED]

manifest = {
    "version": 1,
    "setup_cmd": "cd /verif/coq && coq_makefile -f _CoqProject -o Makefile && make -j16",
    "hooks": {
        "guard": "SQLLINEAGE_VERIF",
        "enable": "environment variable SQLLINEAGE_VERIF=1 (set by ./check); taps in sqllineage/utils/verif.py are inert otherwise",
        "baseline_off_cmd": "cd /repo && env -u SQLLINEAGE_VERIF /venv/bin/python -m pytest -ra -q -p no:cacheprovider --timeout=900 --continue-on-collection-errors",
        "source_commits": ["662f339"],
        "add_only": True,
    },
    "engines": [{
        "name": "coq-model-correspondence",
        "path": "/verif/coq + /verif/harness",
        "serves_properties": sorted(CLAIMED),
        "kind_free_text": "Coq 8.16.1 development (models, proofs, Props/Cxx.v) + Python harness that evaluates the model inside Coq and the implementation on the same inputs",
    }],
    "checks": checks,
    "not_applicable": na,
    "notes": "fix commits in /repo: e020d83 (C15), c90fd36 (C17), baca01e (C06).  known_findings.json lists recorded defects.",
}
(VERIF / "MANIFEST.json").write_text(json.dumps(manifest, indent=1) + "\n")
print("claimed", sorted(CLAIMED), "not claimed", len(na))
