"""Writes MANIFEST.json from the table below (kept in one place so it stays valid)."""
import json
from pathlib import Path

VERIF = Path(__file__).resolve().parent.parent
props = [json.loads(l) for l in (VERIF / "properties.jsonl").read_text().splitlines() if l.strip()]

TB = ("Trusted: Coq 8.16.1 kernel + vm_compute (no native_compute, no axioms: Print Assumptions of every theorem is 'Closed under the global "
      "context'); hand-written Gallina models (modelled, not verified) tied to /repo on every run by evaluating them inside Coq on the inputs the "
      "implementation runs; harness (generators, serialisers, canonicalisers). ")

CLAIMED = {
 "C01": dict(
  text="Tree model of the sqlfluff extractors (Tree/*.v, ~1500 lines of Gallina following the Python line by line) is run inside Coq on the very parse "
       "trees the implementation analyses (corpus + generated statements, several dialects); the denotational specification Ast/Spec.v (reads/writes) "
       "is evaluated on the generated abstract syntax and compared with the implementation. Proved: Lemma A (c01_exact_on_rendered_core) - for every "
       "statement of a core fragment (column/star items, base and derived tables, joins, WHERE-IN sub-queries, unions, outermost WITH; any size, any "
       "nesting depth, any trivia between tokens) the model's reads/writes on the rendered tree equal the specification; the rendering function is compared "
       "with the real parser's tree on every run. Also: statements that move no data report nothing, unsupported statements are refused/skipped, the "
       "recursive-CTE specification is conservative, refutation witnesses of the recorded defect classes (two of them found by the proof attempt).",
  ref="DESIGN.md section 6 C01, section 12", note=TB + "Outside the fragment of Lemma A (expressions, join groups, CTE chains, recursion, other dialects' tree shapes) exactness M = S is "
       "checked by correspondence (I = M on every tree, I = S on every generated statement inside the guard), not proved. Parser = oracle; "
       "Tree/Render.v is tied to it by suite T3-render.",
  tech="Coq proof (Lemma A: model on rendered trees = denotational spec, by induction on fuel/structure) + Coq model of the extractors evaluated on the parser's trees + executable Coq specification on generated ASTs"),
 "C02": dict(
  text="As C01 for end-to-end column pairs: tree model + assembly + path enumeration (Holder/Build.v) inside Coq on the implementation's parse trees; "
       "specification spec_flows (aliases shadow names, unresolved columns keep candidates, set operations positional, derived tables and CTEs by "
       "composition) evaluated on generated ASTs. Proved: Lemma B steps 1-4 (c02_exact_on_single_select) - for INSERT (with/without column list) / CTAS / "
       "VIEW over one SELECT from any number of distinct base tables, any number of column / star items, any trivia, inside the executable guards "
       "stmt_ok and colshape, the model's end-to-end column pairs (extractors + assembly + path enumeration) equal the specification; the unguarded "
       "statement is refuted by 18 counterexample classes (8 are defects of the implementation, 3 of them new); refutation witnesses of the recorded classes. Step 5 (partial, this round): WHERE c IN (sub-query) (c02_exact_on_select_where_in_partial, Tree/LemmaB5a.v) and one derived table (c02_exact_on_one_derived_table_partial, Tree/LemmaB5c.v, with Part P generalised to ranked flow sets: pairs = ends of maximal chains, dead ends contribute nothing); the unguarded Lemma B statement is additionally refuted by a rendering artefact (equal raw text of two different sub-queries under empty trivia) and repaired by the guard sq_raw_distinct. Closed since: one level of WHERE..IN in full (c02_exact_on_select_where_in_full, pure shape, incl. column lists and unresolved columns), UNION of two SELECTs in full (c02_exact_on_union), one derived table as an unconditional instance (c02_exact_on_one_derived_table), flat FROM lists with derived tables incl. unresolved inner columns (own guard), one CTE (c02_exact_on_one_cte_partial, own guard).",
  ref="DESIGN.md section 6 C02, section 12", note=TB + "M = S at column level is proved for single-SELECT statements over base tables only; derived tables, WITH, UNION, WHERE-IN and expressions "
       "are checked by correspondence; guarded generator excludes recorded classes K-C02-1..11 (replayed separately). Steps 5a/5c are proved under their own executable syntactic guards (wherein1_shape, one_derived_shape), whose derivation from colshape is not yet proved; several relations next to a derived table, nesting, UNION and WITH at column level remain correspondence-only.",
  tech="Coq proof (Lemma B steps 1-4: model pairs = spec_flows) + Coq model evaluated on the parser's trees + executable Coq specification on generated ASTs"),
 "C03": dict(
  text="Theorems about a Gallina model of SQLLineageHolder._build_digraph and the role accessors at dataset level: for scripts without DROP/RENAME "
       "edges and source/target/intermediate equal the property's definition computed from the set of statements (order and repetition invariance), "
       "DROP removes only isolated tables and disturbs nothing else, single RENAME to a fresh name puts y in x's place; chained RENAME refuted (K-C03-1). "
       "Refinement theorem (c03_full_model_refines, Holder/Refinement.v, 2700 lines): this abstract model is the dataset-level projection of the full "
       "graph model Holder/Build.v (step simulation lifted to scripts; the role accessors agree), for all holder lists satisfying the executable "
       "hypothesis wf_holder, which is evaluated on the implementation's own holders on every run. End to end on the tree model (c03_script_roles_exact_on_lemma_A_fragment, Tree/HolderInv.v + ExtractInv.v + ScriptRoles.v): for every script of statements of the WHOLE Lemma-A fragment (derived tables, unions, WHERE-IN, CTEs, any nesting, any trivia) the sources / targets / intermediates the pipeline reports are the ones the property's definition computes from the SPECIFIED reads and writes of the statements; every holder the extractor returns for ANY tree satisfies the structural invariant the refinement needs (c03_extracted_holders_are_well_formed). Suite S4 compares the implementation with these specified roles (evaluated in Coq) on generated SQL scripts.",
  ref="DESIGN.md section 6 C03", note=TB + "The abstraction of a holder graph is defined and proved in Coq (abs_holder); the harness's own abstraction is cross-checked against it on every script.",
  tech="Coq proof (fold invariant, executable spec) + exhaustive abstract histories + SQL scripts"),
 "C04": dict(
  text="Theorems: (c04_pairs_are_the_composition, Holder/Composition.v, 2200 lines) for every provider and every list of statement holders without "
       "DROP/RENAME, with columns resolved at statement level and closed graphs (executable hypothesis c04_hyps), the script graph's column edges are "
       "exactly the union of the statements' edges and the reported end-to-end pairs are exactly the pairs (unfed source, unconsumed target) related by a "
       "non-empty relational composition of the per-statement dataflows - no acyclicity assumption; also: path enumeration sound and complete, session view "
       "after each statement. The whole pipeline (statement loop with session metadata, "
       "assembly, path enumeration) of the model Tree/Script.v runs inside Coq on the implementation's parse trees for multi-statement chains with "
       "and without metadata; relational composition of the per-statement dataflows and the created-earlier scenarios are evaluated on the implementation. End to end on the tree model (c04_script_exact_on_core, Tree/ScriptExact.v, 1240 lines = Lemma B composed with the composition theorem): for every script - any number of statements of the Lemma-B fragment with resolved column references, any order, cycles allowed, any trivia, no metadata - extractors + statement loop + assembly + path enumeration report exactly the pairs (a, b) with b reachable from a through >= 1 specified statement flows, a written by none and b read by none; corollaries: the two-statement chain, the dead end at the intermediate table, statement order irrelevant, cyclic scripts report nothing. The implementation is compared with the executable spec_script_pairs (evaluated in Coq together with the theorem's guard) on generated core scripts (suite S3). Further: scripts with UNION statements, plain SELECTs and no-data statements; scripts with WHERE..IN statements under the executable guard dead_ends_okb (the unguarded statement is refuted: K-C04-3 at script level); the session clause c04_created_table_is_known_to_later_star (CTAS then SELECT * of it under ANY catalog, stale definitions included).",
  ref="DESIGN.md section 6 C04", note=TB + "Composition is proved for scripts inside c04_hyps (about 90% of the scripts the checks generate; counted per run) and checked (S1) on the "
       "implementation for all; unresolved columns resolved at script level and DROP/RENAME are outside the theorem; recorded classes K-C04-1/2/3.",
  tech="Coq proof (union of statement graphs, relational composition, paths, session) + full-pipeline model correspondence on chains"),
 "C05": dict(
  text="Theorems: the token-level model of sqlparse's statement splitter + helpers.split returns exactly the non-empty statements for every separator "
       "variant (also without final semicolon), splitting is idempotent; with a falsy provider the statement loop analyses each statement on its own "
       "(proved over the whole tree model). Tied by token sequences against the real split and by scripts x separator variants, incl. T-SQL without semicolons.",
  ref="DESIGN.md section 6 C05", note=TB + "sqlparse lexer and the T-SQL batch splitter (sqlfluff) are oracles; BEGIN/DECLARE/GO outside the model.",
  tech="Coq proof (splitter invariant; provider independence by induction on fuel) + differential token sequences"),
 "C06": dict(
  text="Theorem (c06_paths_project_onto_tables, Holder/Composition.v): for scripts inside the executable hypothesis c06_hyps (no DROP/RENAME, resolved "
       "columns, and on every column edge of a statement the source's table is read and the target's table written by that statement) every column of a "
       "reported path but the first is owned by a target or intermediate table and every column but the last by a dataset some statement reads. "
       "Theorems about get_column_lineage / all_simple_paths on the full lineage graph: >=2 nodes (fix F4), duplicate-free chain from an in-degree-0 column "
       "to an out-degree-0 table-owned column, enumeration sound and complete, node equality an equivalence, nodes retrievable, one owner per resolved column. "
       "Model of _build_digraph + paths fed with the implementation's per-statement holders for corpus and generated scripts. End to end: c06_script_paths_well_formed_on_core (for scripts of core statements the hypotheses are PROVED of the holders the extractors produce, so every reported path has >= 2 nodes and projects onto the script's own source / intermediate / target tables); c06_paths_between_source_and_target_tables is the strong form for any c06_hyps script.",
  ref="DESIGN.md section 6 C06", note=TB + "The projection theorem's hypotheses are evaluated in Coq on the implementation's own holders (about 90% of the results lie inside); outside "
       "them (DROP/RENAME: K-C06-1; scalar sub-queries: K-C06-2) and for all results the projection is evaluated on the implementation (S).",
  tech="Coq proof (induction on fuel/paths) + holder-level correspondence"),
 "C07": dict(
  text="Theorems: unquoted identifiers case-insensitive, quoting a lower-case identifier changes nothing, separators/comments/extra semicolons do not change "
       "the statement list, every navigation combinator of the extractors commutes with erasing whitespace/comment/meta segments on well-formed trees, and (corollary of "
       "Lemma A) the whole extractor's table lineage on the core fragment does not depend on the trivia between tokens. "
       "Metamorphic comparison on the implementation under 11 token-level rewrites per dialect; tie on the rewritten text. Column level (c07_columns_layout_invariant_on_single_select, corollary of Lemma B): the end-to-end column pairs of INSERT/CTAS/VIEW over one SELECT from base tables do not depend on the trivia. Scripts in which ONE statement is rewritten (with metadata, verbatim repeats, re-created tables) are compared on the implementation. Spelling (Tree/LemmaASpell.v, 3600 lines): the renderer is parameterised by a spelling of identifier leaves and of keyword leaves; every case-only change, double quotes, backticks and brackets are admissible spellings, and under any admissible spelling the whole extractor reports the specified tables (c07_exact_under_any_spelling, c07_tables_spelling_invariant_on_core), and the specified column pairs on the single-SELECT fragment (c07_columns_exact_under_any_spelling_on_single_select).",
  ref="DESIGN.md section 6 C07", note=TB + "Invariance of the whole extractor at column level and outside the core fragment is checked (I(rewrite) = I(plain), I = M on rewritten trees), not proved; "
       "tree well-formedness assumptions of the theorems are monitored on every tree.",
  tech="Coq proof (string laws, splitter, strong induction on rose trees) + metamorphic rewrites"),
 "C08": dict(
  text="Theorem: the specification (tables and column flows) is invariant under admissible renaming of aliases, derived-table aliases and CTE names; the naive "
       "admissibility was refuted by the proof attempt and three necessary side conditions added; with Lemma A the tree model itself is invariant at table level "
       "on the core fragment (c08_tables_alpha_on_core). Metamorphic comparison on the implementation under six "
       "adversarial renaming pools x AS keyword + scope-aware renaming to names of the enclosing query's tables, per dialect; I = S on the unrenamed statement. Column level on the single-SELECT fragment (c08_columns_alpha_on_single_select: Lemma B + alpha-equivalence of the specification's flows; guards on the original statement only).",
  ref="DESIGN.md section 6 C08", note=TB + "The theorem is about the specification; the implementation is tied to it by C01/C02-style comparison and by the metamorphic check.",
  tech="Coq proof (alpha-equivalence of the denotational spec) + metamorphic renamings"),
 "C09": dict(
  text="Theorem: the extractors are dialect-parametric (the dialect name is only compared with 'vertica'), so cross-dialect agreement reduces to agreement of "
       "parse trees (parser oracle). Every generated statement is analysed under all 28 installed dialects and the legacy analyzer; the tie holds per dialect.",
  ref="DESIGN.md section 6 C09", note=TB + "Tree-shape agreement across dialects and the legacy analyzer are observed, not proved; recorded classes K-C09-1/2/6/7.",
  tech="Coq proof (parametricity by construction) + cross-dialect differential run"),
 "C10": dict(
  text="Theorems: unsupported statement types raise the library's own exception or become an empty holder in silent mode, and an empty holder never changes the "
       "assembled result (any position); on the core fragment of Lemma A the analysis never ends in an error value (c10_core_never_fails). Every partial Python operation is an explicit error value in the tree model, whose error kind is compared with the "
       "implementation's on mutated statements; the malformed stream (5000/42000 cases x 20 dialects) must only raise library exceptions.",
  ref="DESIGN.md section 6 C10", note=TB + "Totality over all strings is explored, not proved (parser oracle); four escapes repaired (fix commits), NetworkXError on chained RENAME recorded.",
  tech="Coq proof (dispatch, silent skip) + error-kind correspondence + malformed-input stream"),
 "C11": dict(
  text="Theorems: sorted accessor outputs and path listings are invariant under permutation of the underlying collections; at dataset level the assembled result "
       "depends only on the set of statements. The implementation runs in fresh interpreters under 4/32 hash seeds with shuffled repeated accessor calls. Full graph model (Holder/OrderFree.v, corollaries of the composition and refinement theorems): printed end-to-end column pairs are independent of statement order/repetition (c11_column_pairs_statement_order_free) and of the insertion order of nodes and edges inside the statement graphs (c11_column_pairs_insertion_order_free, c11_permuted_graphs_are_equivalent); role lists of the full model are order-free; the hypotheses are shown necessary (Python-equal column objects with different candidate parents; chained RENAME).",
  ref="DESIGN.md section 6 C11", note=TB + "Hash seeds are sampled; five order-dependence classes recorded (K-C11-1..5).",
  tech="Coq proof (Permutation-invariance) + multi-seed differential run"),
 "C12": dict(
  text="Theorems about MetaDataProvider/MetaDataSession and the statement loop for an arbitrary analysis function: session empty after every run incl. failures, "
       "reused provider answers as a fresh one, outcome independent of the history of runs. Histories with failure at every position, provider faults at every "
       "lookup index, falsy/truthy/default providers, shuffled corpus history, 16-thread pool. Concurrency clause (Provider/Interleave.v): a run is a small-step machine over its own provider (= eval when run to its end); at any point of any schedule every run is where it would be alone (c12_isolation_at_any_point), so every complete interleaving of any number of runs, each with its own provider, ends with the provider states and results of the sequential executions in any order (c12_every_interleaving_is_sequential, c12_interleaving_equals_any_sequential_order); with one shared provider this is refuted (c12_shared_provider_refuted).",
  ref="DESIGN.md section 6 C12", note=TB + "Thread non-interference exercised, not proved; sqlfluff/SQLAlchemy caches not modelled.",
  tech="Coq proof (state-machine invariant over run histories) + exhaustive failure-point histories"),
 "C13": dict(
  text="Theorems: on the core fragment of Lemma A table-level lineage is the specified one, and the analysis succeeds, for an ARBITRARY metadata provider "
       "(c13_metadata_never_changes_tables_on_core, c13_exact_tables_any_provider; any catalog, any trivia, any statement size); a provider without "
       "metadata is never consulted (analysis independent of what it would answer); refutation witnesses K-C13-1/2. On the "
       "implementation: table lineage unchanged under every metadata assignment, unknown tables same answer, star expansion, unqualified attribution "
       "(lists/lacks/unknown), target positions; tie of the tree model with a provider view. Column level with a catalog (Ast/SpecMeta.v, Tree/LemmaBMeta*.v): c13_columns_exact_with_metadata_plain_items (listers of an unqualified column, positions of a known target, explicit lists - any catalog inside md_ok), c13_star_expands_to_catalog_columns, c13_unknown_tables_same_answer, c13_known_target_names_positions(_spec); the unguarded statement refuted by 13 classes (K-C13-3/4 new). Suite S_md compares the implementation with spec_pairs_md evaluated in Coq.",
  ref="DESIGN.md section 6 C13", note=TB + "The column-level refinement clauses (star expansion, unqualified attribution, target positions) are evaluated on the implementation for "
       "templated statements, not proved; the table-level clause is proved on the core fragment and refuted outside it (DROP).",
  tech="Coq proof (Lemma A for any provider; provider independence) + clause scenarios + model correspondence with metadata"),
 "C14": dict(
  text="Theorems: on the specification, analysing with default schema S equals analysing the explicitly qualified statement without a default "
       "(c14_spec_default_is_qualification, all statements); with Lemma A the same holds for the tree model on the core fragment "
       "(c14_default_is_qualification_on_core). The specification takes the default schema as a parameter; on the implementation, scoped override = environment variable (fresh process) = explicit "
       "qualification = specification, for every generated statement incl. qualified names spelled as one quoted dotted identifier. Regression witness for fix F5. Column level: on the specification for ALL statements the column flows of the explicitly qualified statement, under any default, are the flows under the default (c14_spec_flows_default_is_qualification, Ast/QualifyCols.v); on the tree model for the single-SELECT fragment of Lemma B the end-to-end pairs agree (c14_columns_default_is_qualification_on_single_select; guards on s only - they are preserved by qualification).",
  ref="DESIGN.md section 6 C14", note=TB + "Table level proved (spec: all statements; model: core fragment); the column level and the mechanisms (scoped override, environment, "
       "combination with other options) are checked on the implementation, not proved.",
  tech="Coq proof (qualification lemma on the spec, corollary of Lemma A on the model) + Coq model with call-time/import-time default + four-way metamorphic comparison"),
 "C15": dict(
  text="Theorems about the configuration loader: non-interference of threads for every history and interleaving, scope semantics incl. exceptional exit and "
       "identifier reuse, rejected operations are no-ops, type coercion. Model evaluated inside Coq on the same histories / thread programs; real threads "
       "pre-empted at the taps and between any two lines of config.py.",
  ref="DESIGN.md section 6 C15, Appendix A", note=TB + "CPython dict/set atomicity assumed (exercised by line-level pre-emption).",
  tech="Coq proof (induction over op histories) + exhaustive histories + line-level pre-emption"),
 "C16": dict(
  text="Theorems about escape_identifier_name and the Schema/Table constructors: case-insensitivity, quoting laws, last-dot split, idempotence on stable names, "
       "position theorem; refutations for quoted upper-case names (K-C16-1/2). Exhaustive spellings through the real functions and real SQL per dialect. Whole extractor: with a different admissible spelling for every syntactic role of an identifier the reads and writes are the specified ones (c16_one_entity_per_identifier_in_every_position).",
  ref="DESIGN.md section 6 C16", note=TB + "ASCII identifiers only.",
  tech="Coq proof (string induction, 256-case sweeps) + exhaustive spelling x position"),
 "C17": dict(
  text="Theorems about the web handler's path logic on segment lists: every passing POST reads only under the resolved root, GET without '..' stays under the "
       "static folder, lexical resolution is a normal form. Every enumerated request goes to the real WSGI app against a scratch tree with outside markers.",
  ref="DESIGN.md section 6 C17, Appendix B", note=TB + "No symlinks under the roots; HTTP layer not modelled.",
  tech="Coq proof (induction over segment lists) + exhaustive request enumeration"),
 "C18": dict(
  text="Theorems about io.to_cytoscape: every edge endpoint and parent reference is an exported id, exactness, owners once up to equality, ids unique when printing "
       "is injective (refuted otherwise: K-C18-1), summary sorted. Model evaluated on the very sub-graphs the implementation exports; POST /lineage.",
  ref="DESIGN.md section 6 C18", note=TB,
  tech="Coq proof (list/dictionary invariants) + model on the implementation's own graphs"),
}
CLAIMED = {k: {"text": v["text"], "design_ref": v["ref"], "note": v["note"], "technique": v["tech"]} for k, v in CLAIMED.items()}

# ---- additions of round 6 (appended to the texts above) ---------------------------------------------------------------------
ADD = {
 "C01": (" Round 6: Lemma A for UPDATE, MERGE and SELECT ... INTO (c01_exact_on_update_merge_select_into; Ast/SpecDml.v, Tree/RenderDml.v, "
         "Tree/LemmaADml.v; layout validated against the parser and implementation compared with the specification by suite "
         "T3-render-dml / S-dml): exact for every trivia, size and depth of the embedded queries, except UPDATE with a sub-query in WHERE, "
         "where the proof attempt found defect K-C01-7 (c01_update_where_exact_iff gives the exact class, c01_update_reports_from_tables_only "
         "what the code reports). Lemma A with expression select items - functions, arithmetic, CASE, CAST, window functions, aliased or "
         "not, any depth, at every nesting level (c01_exact_on_rendered_core_with_expressions; Tree/RenderExpr.v, Tree/LemmaAExpr.v, suite T3-render-x).",
         " Expressions are now inside the proved fragment; join groups, CTE chains and recursion are not."),
 "C02": (" Round 6: expression items (c02_expression_item_sources: an aliased expression of any depth yields exactly its column references; "
         "c02_exact_on_single_select_with_expressions: the whole pipeline = specification for INSERT [cols] / CTAS / VIEW over one SELECT "
         "with star / column / aliased expression items; layout by suites T3-render-expr and T3-render-x). UPDATE and MERGE at column "
         "level (c02_exact_on_update_and_merge_partial, Ast/SpecDmlCols.v, Tree/LemmaBDml.v; implementation compared with the "
         "specification by suite S-dml-columns); the proof attempt found K-C02-12 (alias of an UPDATE target not resolved) and K-C02-13 "
         "(MERGE ignores the qualifier of a source column).",
         " MERGE with a derived-table source and UPDATE over derived tables: tested, not proved."),
 "C05": (" Round 6: the T-SQL batch splitter is modelled on the parser's FILE tree (Tree/TsqlSplit.v: statement list, split_tsql with its "
         "raw-text keyed cache, the statement loop through the cache) and proved: a no-semicolon batch (also with semicolons, GO batches) "
         "lists exactly its statements in order (c05_tsql_statement_list*), the cache returns the last segment with a raw text "
         "(c05_tsql_cache_lookup), and with a provider without metadata the script is analysed as each statement on its own "
         "(c05_tsql_script_is_its_statements, under raw_determines - shown necessary). Tie: suite T2-tsql on the real file trees.",
         " The T-SQL splitter is no longer an oracle; the parser producing the file tree is."),
 "C09": (" Round 6: as corollaries of Lemma A / Lemma B, any two non-vertica dialects whose parser lays a core statement out as "
         "Tree/Render.v does report the same (specified) tables and, on the single-SELECT fragment, the same column pairs "
         "(c09_core_tables_agree_across_dialects, c09_single_select_columns_agree_across_dialects); the check measures per dialect on "
         "how many generated statements the real parser's tree equals the rendering (evidence: render_layout_agrees). Streams added: "
         "set-operation operands parenthesised in every combination at every query position; K-C09-10 recorded.", ""),
 "C10": (" Round 6: the contract is proved on ALL segment trees, every statement type, environment and mode "
         "(c10_total_on_all_trees_partial, Tree/Total*.v, 2 500 lines): under the executable predicate escape_free (seven local shape "
         "conditions, each shown necessary by a counterexample tree; evaluated by the check on every parse tree of the run) analysis "
         "ends in a result, one of the library's exceptions or - not yet excluded for top-level INSERT/CREATE/UPDATE/MERGE - ValueError; "
         "never IndexError / AttributeError / KeyError, and the explicit fuel always suffices. No ValueError either for query "
         "statements without nested write sites (c10_total_queries_strict) and outside the lineage extractors. Script level: statement "
         "loop and assembly total under the RENAME guard script_rn_ok (c10_script_total_partial; KeyError never: c10_build_no_key_error; "
         "without the guard exactly NetworkXError: c10_script_total_unguarded, K-C10-5). The proof found a real crash (tsql MERGE TOP (n) "
         "..: IndexError), repaired by fix a8666bf. Stream added: names spelled like variables/parameters in every identifier position x 20 dialects.",
         " escape_free / script_rn_ok are hypotheses about the parser's trees, monitored on every tree of every run."),
 "C11": (" Round 6: repetitions on the same provider OBJECT with runs in between (also failing ones that created tables).", ""),
 "C13": (" Round 6: both bundled providers compared on every run (tables findable under another schema).", ""),
 "C14": (" Round 6: CTE homonym stream (a qualified table named like a CTE in scope, default = the written schema).", ""),
 "C15": (" Round 6: scope oracle on op histories (nested open refused whether by call or by entering the manager directly; own "
         "override read inside the scope).", ""),
 "C16": (" Round 6: letters outside ASCII (property oracle on the implementation; the Coq model stays ASCII).", ""),
 "C17": (" Round 6: the application object serves HISTORIES of requests between which root and working directory change "
         "(Web/History.v: c17_history_contained - whatever any request of any history may read lies under the root in force when it "
         "arrives; c17_history_answers_are_stateless); history suite against the real app with genuinely different roots.", ""),
}
ADD2 = {
 "C01": " Later in round 6: join groups in the JOIN spelling exact (c01_exact_on_join_groups_join_spelling); COPY / COPY INTO / file references with paths (c01_exact_on_copy_and_file_references; K-C01-8 path case lost), CTE chains "
        "of any length (c01_exact_on_cte_chains; K-C01-9/10), parenthesised join groups refuted at table level (c01_join_groups_refuted, "
        "K-C01-11; FROM-clause navigation for the JOIN spelling proved in Tree/LemmaAGroup2.v), K-C01-12 (set operation with a parenthesised operand inside IN). "
        "Layout suites T3-render-path and T3-render-chain+group.",
 "C02": " MERGE with a derived-table source proved (c02_exact_on_update_and_merge_incl_derived_source, Tree/LemmaBDmlDerived{,2}.v); CTE chains at "
        "column level: length 1 proved through the chain renderer, the general statement refuted (K-C02-14: a literal item of a CTE "
        "definition is reported as a source) and the repaired one tested only (Tree/LemmaBChain{,2}.v); SELECT .. INTO at column level "
        "(c02_exact_on_select_into).",
 "C04": " Round 6: the end-to-end script theorem now covers statements with expression items (c04_script_exact_on_core_with_expressions, "
        "Tree/ScriptExactExpr.v) and scripts that also contain UPDATE / MERGE statements and plain SELECTs with expressions "
        "(c04_script_exact_with_update_and_merge, Tree/ScriptExactDml.v; roles: c03_script_roles_exact_with_update_merge_select_into); suite S3x compares the implementation with spec_script_pairs on "
        "scripts with expression items; scenarios with unqualified staging tables and positional INSERT into a table created earlier.",
 "C06": " Round 6: c06_script_paths_well_formed_with_expressions (scripts of statements with expression items); "
        "c06_script_paths_well_formed_with_update_and_merge (scripts that also contain UPDATE / MERGE; guard dml_ok per DML statement).",
 "C03": " Round 6: c03_script_roles_exact_with_update_merge_select_into (Tree/ScriptRolesDml.v; needed the new invariant theorem "
        "c03_merge_holders_are_well_formed for the MERGE extractor, any tree). Every statement of a generated script is also analysed on its own and its reads/writes compared with those it has inside the script.",
 "C08": " Round 6: several qualified stars over relations sharing a column name; table alias with a derived column list x AS keyword (found and repaired, fix 62bbb18: "
        "without AS the column list was taken for the alias).",
 "C10": " Strict forms: c10_total_on_all_trees_strict (no ValueError disjunct, every statement type, under escape_free and nw_inner - both evaluated on "
        "every parse tree of the run) and c10_script_total_strict.",
 "C13": " Round 6: c13_exact_tables_any_provider_update_merge_select_into and c13_metadata_never_changes_tables_of_update_merge "
        "(Tree/LemmaADmlMeta.v): UPDATE / MERGE / SELECT INTO under an arbitrary catalog; c13_exact_tables_any_provider_with_expressions, "
        "c13_metadata_never_changes_tables_with_expressions (Tree/LemmaAExprMeta.v): the expression fragment at every depth.",
 "C14": " Round 6: c14_spec_default_is_qualification_update_merge, c14_default_is_qualification_update_merge, "
        "c14_default_is_qualification_with_expressions (Tree/QualifyNew.v; guards of the qualified statement as hypotheses).",
 "C17": " Overlapped requests (a second request served completely while the first reads its body) must get the answer they get alone.",
 "C18": " The text summary is compared with the roles the EXPORTED table graph shows (not with the accessors).",
}
for _pid, (_t, _n) in ADD.items():
    CLAIMED[_pid]["text"] = CLAIMED[_pid].get("text", "") + _t
    CLAIMED[_pid]["note"] = CLAIMED[_pid].get("note", "") + _n
for _pid, _t in ADD2.items():
    CLAIMED[_pid]["text"] = CLAIMED[_pid].get("text", "") + _t

checks = []
for pid, c in CLAIMED.items():
    checks.append({
        "property_id": pid,
        "quick_cmd": f"./check {pid} --tier quick",
        "thorough_cmd": f"./check {pid} --tier thorough",
        "evidence_file": f"/verif/evidence/{pid}.json",
        "engine": "coq-model-correspondence",
        "level_claimed": {"category": "proof", "text": c["text"], "design_ref": c["design_ref"]},
        "level_note": c["note"],
        "technique": c["technique"],
    })

na = [{"property_id": p["id"], "reason": "check not built yet in this round (planned, see DESIGN.md section 9); no other technique substituted"}
      for p in props if p["id"] not in CLAIMED]

manifest = {
    "version": 1,
    "setup_cmd": "cd /verif/coq && coq_makefile -f _CoqProject -o Makefile && make -j16",
    "hooks": {
        "guard": "SQLLINEAGE_VERIF",
        "enable": "environment variable SQLLINEAGE_VERIF=1 (set by ./check); taps in sqllineage/utils/verif.py are inert otherwise",
        "baseline_off_cmd": "cd /repo && env -u SQLLINEAGE_VERIF /venv/bin/python -m pytest -ra -q -p no:cacheprovider --timeout=900 --continue-on-collection-errors",
        "source_commits": ["662f339"],
        "add_only": True,
    },
    "engines": [{
        "name": "coq-model-correspondence",
        "path": "/verif/coq + /verif/harness",
        "serves_properties": sorted(CLAIMED),
        "kind_free_text": "Coq 8.16.1 development (models, proofs, Props/Cxx.v) + Python harness that evaluates the model inside Coq and the implementation on the same inputs",
    }],
    "checks": checks,
    "not_applicable": na,
    "notes": "fix commits in /repo: 62bbb18, a8666bf, b8899d3, d6879c7, 1b08581, 0694b59, 335c6c0, a908979, baca01e, c90fd36, e020d83.  known_findings.json lists recorded defects (status known / fixed).",
}
(VERIF / "MANIFEST.json").write_text(json.dumps(manifest, indent=1) + "\n")
print("claimed", sorted(CLAIMED), "not claimed", len(na))
