"""C07 - lineage is invariant under layout, comments and letter case.

Proof obligations: coq/theories/Props/C07.v.  Metamorphic check on the implementation (S): every
generated statement is printed plainly and under token-level rewrites (line breaks, line/block
comments between tokens, keyword case, case of unquoted identifiers, quoting of lower-case
identifiers per dialect quoting rule, extra trailing semicolons); tables and named-column lineage must
not change.  Tie: the rewritten text goes through suite T2/T4 (tree model on the parser's trees)."""
from __future__ import annotations

import re

import astgen
import corpus
import sqltie
import t2tie
from common import load_known, Check, rng, tier

QUOTE = {"ansi": ('"', '"'), "mysql": ("`", "`"), "tsql": ("[", "]"), "bigquery": ("`", "`"), "postgres": ('"', '"'),
         "sparksql": ("`", "`"), "snowflake": ('"', '"')}


def noise_fn(r, level):
    pool = ["\n", "\n\n", "\t", "  ", " /* c */ ", " -- x\n", "\n/* multi\nline; */\n", " --;\n"]

    def f(i):
        return r.choice(pool) if r.random() < level else " "
    return f


def main() -> int:
    ck = Check("C07")
    ck.assumptions += ["a layout rewrite changes the parse tree only by whitespace / comment / meta segments and letter case (checked structurally on the rewritten trees via the T2 tie, not proved: parser oracle)",
                       "expressions are aliased by the generator, so the display-name exemption of the property is not exercised"]
    ck.trusted += ["Gallina models Ident/Escape.v, Split/Tokens.v, Tree/*.v, tied by suite T2/T4 on the rewritten text (this run)", "harness/c07.py, harness/astgen.py (printer options)"]
    proofs_ok = ck.proofs()
    quick = tier() == "quick"
    r = rng("c07")
    spec_failures, disagreements = [], []
    dist = {"statements": 0, "variants": {}, "per_dialect": {}, "rejected_by_parser": 0}
    n = 60 if quick else 1500
    stmts = astgen.gen_batch(r, n, (0, 1, 2), shapes=30 if quick else 300)
    dialects = ["ansi", "mysql", "tsql"] if quick else list(QUOTE)
    for d in dialects:
        base = t2tie.summaries(sqltie.records(stmts, dialect=d))
        variants = {
            "noise-light": astgen.Opts(noise=noise_fn(r, 0.3)),
            "noise-everywhere": astgen.Opts(noise=noise_fn(r, 1.0)),
            "kw-lower": astgen.Opts(kw_case="lower"),
            "kw-mixed": astgen.Opts(kw_case="mixed", noise=noise_fn(r, 0.2)),
            "id-upper": astgen.Opts(id_case="upper"),
            "id-mixed": astgen.Opts(id_case="mixed", kw_case="lower"),
            "quoted": astgen.Opts(quote=QUOTE[d]),
            "quoted-noise": astgen.Opts(quote=QUOTE[d], noise=noise_fn(r, 0.5), kw_case="lower"),
            "double-semicolon": astgen.Opts(trailing=";;"),
            "no-semicolon-nl": astgen.Opts(trailing="\n\n"),
            "semicolon-comment-semicolon": astgen.Opts(trailing="; /* c */ ;"),
            "semicolons-line-comment": astgen.Opts(trailing=";; -- done"),
            "semicolon-comment-line-semicolon": astgen.Opts(trailing=";\n-- c\n;\n"),
            "comment-before-semicolons": astgen.Opts(trailing=" /* end */ ; ;", noise=noise_fn(r, 0.2)),
            "no-as": astgen.Opts(use_as=False),
        }
        batch, meta = [], []
        for name, o in variants.items():
            for si, rec in enumerate(sqltie.records(stmts, dialect=d, opts=o)):
                batch.append(rec)
                meta.append((name, si))
        got = t2tie.summaries(batch)
        for (name, si), rec, g in zip(meta, batch, got):
            s, b = stmts[si], base[si]
            ck.count()
            dist["variants"][name] = dist["variants"].get(name, 0) + 1
            if b.startswith("ERR:InvalidSyntax") or g.startswith("ERR:InvalidSyntax"):
                dist["rejected_by_parser"] += 1
                continue
            dist["per_dialect"][d] = dist["per_dialect"].get(d, 0) + 1
            if b.split("#")[0] not in ("R=;W=",):
                ck.nontriv((d, name, rec["sql"]))
            if b != g:
                spec_failures.append({"suite": "metamorphic", "dialect": d, "rewrite": name, "plain_sql": astgen.to_sql(s),
                                      "rewritten_sql": rec["sql"], "plain_result": b, "rewritten_result": g,
                                      "spec": "layout, comments, letter case, quoting of lower-case identifiers and extra semicolons change nothing"})
        # tie on a rewritten variant (the model sees the parser's tree of the noisy text)
        recs = sqltie.records(stmts[: (40 if quick else 400)], dialect=d, opts=astgen.Opts(noise=noise_fn(r, 0.6), kw_case="mixed", id_case="mixed"))
        for x in t2tie.run_scripts(recs):
            ck.count()
            if "skip" in x:
                continue
            if x["impl"] != x.get("model"):
                disagreements.append({"suite": "T2-rewritten", "dialect": d, "sql": x["rec"]["sql"], "impl": x["impl"][:1500], "model": x.get("model", "")[:1500]})
            if x.get("wf_problems"):
                disagreements.append({"suite": "tree-wf", "dialect": d, "sql": x["rec"]["sql"], "problems": x["wf_problems"][:5]})
        dist["statements"] += len(stmts)
    # '# ...' line comments (MySQL family, and the legacy analyzer whose lexer knows them too)
    hash_pool = [" # h\n", " # pick; more\n", "\n# note\n"]
    for d in ["mysql", "non-validating"] + ([] if quick else ["mariadb"]):
        base = t2tie.summaries(sqltie.records(stmts, dialect=d))
        for lvl in (0.15, 0.5):
            recs = sqltie.records(stmts, dialect=d, opts=astgen.Opts(noise=lambda i, lvl=lvl: r.choice(hash_pool) if r.random() < lvl else " "))
            for s, rec, b, g in zip(stmts, recs, base, t2tie.summaries(recs)):
                ck.count()
                dist["variants"]["hash-comment"] = dist["variants"].get("hash-comment", 0) + 1
                if d == "non-validating" and re.search(r"union(?! all\b)(\s|#[^\n]*\n)+all\b", rec["sql"], re.I):
                    continue        # recorded: K-C07-1 (replayed below)
                if b.startswith("ERR:InvalidSyntax") or g.startswith("ERR:InvalidSyntax") or "#" not in rec["sql"]:
                    dist["rejected_by_parser"] += b.startswith("ERR") or g.startswith("ERR")
                    continue
                ck.nontriv((d, "hash-comment", rec["sql"]))
                if d == "non-validating":
                    # the legacy analyzer names an un-aliased expression column after its text (exempt): compare sources per target table
                    proj = lambda x: x.split("#")[0] + "#" + ";".join(sorted({p.split(">")[0] for p in x.split("#", 1)[1].split(";") if p})) if "#" in x else x
                    b, g = proj(b), proj(g)
                if b != g:
                    spec_failures.append({"suite": "metamorphic", "dialect": d, "rewrite": "hash-comment", "plain_sql": astgen.to_sql(s),
                                          "rewritten_sql": rec["sql"], "plain_result": b, "rewritten_result": g,
                                          "spec": "a '# ...' line comment between tokens changes nothing"})
    for f in load_known():
        if f["property"] == "C07" and f["status"] == "known" and "replay" in f:
            rp = f["replay"]
            a, b2 = t2tie.summaries([{"sql": rp["plain"], "dialect": rp["dialect"], "metadata": None, "config": {}},
                                     {"sql": rp["rewritten"], "dialect": rp["dialect"], "metadata": None, "config": {}}])
            ck.count()
            if a != b2:
                ck.known(f["id"], f["what"] + " (replayed: %r -> %s instead of %s)" % (rp["rewritten"], b2, a))
    # multi-statement scripts (with metadata, session-dependent statements, verbatim repeats, tables re-created with other
    # columns) in which ONE statement is rewritten and the others are left alone: the rewrite positions of the property are
    # token boundaries anywhere in the script, not "the same rewrite everywhere"
    import gen_scripts
    scr = []
    for cols1, cols2 in ((["ca", "cb"], ["cc"]), (["ca"], ["ca", "cd"]), (["k", "x"], ["x", "k", "y"])):
        for mk in ("create table stg as select %s from s.src", "create view stg as select %s from s.src"):
            for use in ("insert into s.out1 select * from stg", "insert into s.out1 select p.* from stg p", "create table s.o2 as select * from stg"):
                st = [mk % ", ".join(cols1), use, "drop table stg", mk.replace("s.src", "s.src2") % ", ".join(cols2), use]
                scr.append({"stmts": st, "metadata": {"s.src": cols1 + ["zz"], "s.src2": cols2}})
                scr.append({"stmts": st[:2] + st[3:], "metadata": {"zz.other": ["q"]}})
    for x in gen_scripts.gen_records(r, 25 if quick else 400):
        st = [t.strip() for t in x["sql"].split(";\n")]
        if len(st) >= 2:
            scr.append({"stmts": st + [st[r.randrange(len(st))]], "metadata": x.get("metadata")})
    part_rw = {
        "lead-comment": lambda t: "/* c; */ " + t,
        "trail-line-comment": lambda t: t + " -- c; d\n",
        "first-gap-newline": lambda t: t.replace(" ", "\n", 1),
        "first-word-case": lambda t: t.split(" ", 1)[0].swapcase() + " " + t.split(" ", 1)[1] if " " in t else t,
        "from-gap": lambda t: t.replace(" from ", "\tfrom  ", 1),
    }
    plain_recs = [{"sql": ";\n".join(x["stmts"]) + ";", "dialect": "ansi", "metadata": x["metadata"], "config": {}} for x in scr]
    plain_out = t2tie.summaries(plain_recs)
    batch, meta = [], []
    for xi, x in enumerate(scr):
        for i in range(len(x["stmts"])):
            for name, f in part_rw.items():
                if quick and (xi + i + len(name)) % 2:
                    continue
                st = list(x["stmts"])
                st[i] = f(st[i])
                if st[i] == x["stmts"][i]:
                    continue
                batch.append({"sql": ";\n".join(st) + ";", "dialect": "ansi", "metadata": x["metadata"], "config": {}})
                meta.append((xi, i, name))
    for (xi, i, name), rec, g in zip(meta, batch, t2tie.summaries(batch)):
        b = plain_out[xi]
        ck.count()
        dist["variants"]["one-statement:" + name] = dist["variants"].get("one-statement:" + name, 0) + 1
        if b.startswith("ERR:InvalidSyntax") or g.startswith("ERR:InvalidSyntax"):
            dist["rejected_by_parser"] += 1
            continue
        ck.nontriv(("script", name, rec["sql"]))
        if b != g:
            spec_failures.append({"suite": "one-statement-rewritten", "rewrite": name, "statement_index": i, "metadata": rec["metadata"],
                                  "plain_sql": plain_recs[xi]["sql"], "rewritten_sql": rec["sql"], "plain_result": b, "rewritten_result": g,
                                  "spec": "a comment, line break, blank or letter-case change in one statement of a script changes nothing"})
    # corpus: case and layout rewrites that need no knowledge of the grammar (keywords are not touched)
    recs = [x for x in corpus.load() if x["dialect"] == "ansi" and not x.get("metadata") and not x.get("origin", "").startswith("tpcds")
            and not any(v for v in (x.get("config") or {}).values())]
    recs = recs[:: (4 if quick else 1)]
    base = t2tie.summaries(recs)
    padded = [dict(x, sql="\n" + x["sql"].replace("\n", "\n\n") + " ;; ") for x in recs]
    for x, b, g in zip(recs, base, t2tie.summaries(padded)):
        ck.count()
        if b != g and not b.startswith("ERR") :
            spec_failures.append({"suite": "corpus-padding", "sql": x["sql"], "plain_result": b, "rewritten_result": g,
                                  "spec": "extra blank lines and trailing semicolons change nothing"})
    ck.sample({"plain": astgen.to_sql(stmts[0]), "rewritten": astgen.to_sql(stmts[0], astgen.Opts(noise=noise_fn(r, 1.0), kw_case="mixed", id_case="mixed"))})
    ck.notes["input_distribution"] = dist
    ck.conclude(spec_failures, disagreements, proofs_ok,
                "correspondence T2 (rewritten text) between Tree/*.v (theorems c07_*) and sqllineage/core/parser/sqlfluff",
                "every rewrite of every generated statement was compared with the plain text on the implementation; no failing input")
    return ck.finish(rule="%d generated statements x 15 rewrites (noise at token boundaries: line breaks, line and block comments containing ';', '# ' comments under mysql and the legacy analyzer; keyword case; "
                          "identifier case; quoting per dialect; ';;'; missing ';'; optional AS) x dialects %s; corpus statements padded with blank lines and "
                          "semicolons; non-trivial = distinct (dialect, rewrite, SQL) with lineage" % (n, ",".join(dialects)))


if __name__ == "__main__":
    raise SystemExit(main())
