"""C01 - single-statement table lineage is exact (see harness/sqltie.exactness_check)."""
import sqltie
if __name__ == "__main__":
    raise SystemExit(sqltie.exactness_check("C01", "tables"))
