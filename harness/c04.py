"""C04 - column lineage chains across statements.

Proof obligations: coq/theories/Props/C04.v.  Tie T4: multi-statement scripts, the whole
pipeline (statement loop with session metadata + assembly + path enumeration) of the model
Tree/Script.v against LineageRunner on the same parse trees.  S1: the script's end-to-end pairs
equal the closure of the union of the per-statement dataflows restricted to roots and leaves
(relational composition); S2: what later statements know about tables created earlier."""
from __future__ import annotations

import json

import gen_scripts
import t2tie
from common import Check, load_known, rng, tier


def closure_pairs(stmt_pairs):
    edges = set()
    for ps in stmt_pairs:
        for a, b in ps:
            edges.add((a, b))
    nodes = {x for e in edges for x in e}
    succ = {}
    for a, b in edges:
        succ.setdefault(a, set()).add(b)
    roots = [n for n in nodes if not any(b == n for _, b in edges)]
    leaves = {n for n in nodes if n not in succ}
    out = set()
    for r0 in roots:
        seen, stack = set(), [r0]
        while stack:
            x = stack.pop()
            for y in succ.get(x, ()):
                if y not in seen:
                    seen.add(y)
                    stack.append(y)
        out |= {r0 + ">" + t for t in seen if t in leaves}
    cyclic = bool(edges) and (not roots or not leaves)
    return sorted(out), cyclic


def star_scripts(r):
    """scripts whose later statements read, with SELECT *, tables created (and re-created) earlier"""
    out = []
    cols = ["a", "b", "c", "d", "e"]
    for _ in range(40):
        c1, c2, c3 = r.sample(cols, 3)
        md = {"s.z": ["q"]}
        sql = (f"create table s.b as select {c1}, {c2} from s.a;\ninsert into s.c select * from s.b;\n"
               f"create table s.b as select {c3} from s.d;\ninsert into s.e select * from s.b")
        exp = sorted([f"s.a.{c1}>s.c.{c1}", f"s.a.{c2}>s.c.{c2}", f"s.d.{c3}>s.e.{c3}"])
        out.append(({"sql": sql, "dialect": "ansi", "metadata": md, "config": {}, "origin": "star-recreate"}, exp))
        sql2 = (f"create table s.b as select {c1} from s.a;\n"
                f"insert into s.c select {c1} from s.b p join s.d q on 1 = 1")
        out.append(({"sql": sql2, "dialect": "ansi", "metadata": md, "config": {}, "origin": "unqualified-earlier"},
                    sorted([f"s.a.{c1}>s.c.{c1}"])))
        sql3 = (f"insert into s.b select * from s.k;\ninsert into s.c select * from s.b")
        md3 = {"s.k": [c1, c2]}
        out.append(({"sql": sql3, "dialect": "ansi", "metadata": md3, "config": {}, "origin": "star-through-insert"},
                    sorted([f"s.k.{c1}>s.c.{c1}", f"s.k.{c2}>s.c.{c2}"])))
        # the catalog still holds an old definition of a table the script re-creates: the script's definition wins
        md4 = {"s.a": [c1, c2], "s.b": [c1, c2, c3], "s.d": [c3, "k"]}
        sql4 = (f"create table s.b as select {c1}, {c2} from s.a;\n"
                f"insert into s.c select {c2}, {c3} from s.b p join s.d q on 1 = 1")
        out.append(({"sql": sql4, "dialect": "ansi", "metadata": md4, "config": {}, "origin": "stale-catalog"},
                    sorted([f"s.a.{c1}>s.b.{c1}", f"s.a.{c2}>s.c.{c2}", f"s.d.{c3}>s.c.{c3}"])))
        sql5 = (f"create table s.b as select {c1}, {c2} from s.a;\ninsert into s.c select * from s.b")
        out.append(({"sql": sql5, "dialect": "ansi", "metadata": md4, "config": {}, "origin": "stale-catalog-star"},
                    sorted([f"s.a.{c1}>s.c.{c1}", f"s.a.{c2}>s.c.{c2}"])))
        # a wildcard that cannot be expanded (source unknown to a non-empty provider) still chains through the intermediate table
        sql6 = "insert into s.b select * from s.k2;\ninsert into s.c select * from s.b"
        out.append(({"sql": sql6, "dialect": "ansi", "metadata": md, "config": {}, "origin": "star-unexpandable"}, ["s.k2.*>s.c.*"]))
        sql7 = f"insert into s.b select * from s.k2;\ninsert into s.b select {c1} from s.a;\ninsert into s.c select * from s.b"
        out.append(({"sql": sql7, "dialect": "ansi", "metadata": md, "config": {}, "origin": "star-unexpandable-then-positional"}, None))
        # a table created earlier names the positions of a later INSERT without column list (select names differ)
        sql8 = (f"create table s.b as select {c1}, {c2} from s.a;\ninsert into s.b select x, y from s.t0;\n"
                f"create table s.fin as select {c1} from s.b")
        out.append(({"sql": sql8, "dialect": "ansi", "metadata": md, "config": {}, "origin": "created-earlier-names-positions"},
                    sorted([f"s.a.{c1}>s.fin.{c1}", f"s.t0.x>s.fin.{c1}", f"s.a.{c2}>s.b.{c2}", f"s.t0.y>s.b.{c2}"])))
    # every scenario again with the intermediate table written WITHOUT a schema (the usual staging table): same answers with the
    # placeholder schema
    unq = []
    for rec, exp in out:
        rec2 = dict(rec, sql=rec["sql"].replace("s.b", "stg"), origin=rec["origin"] + "/unqualified",
                    metadata={k.replace("s.b", "<default>.stg"): v for k, v in (rec["metadata"] or {}).items()})
        unq.append((rec2, None if exp is None else sorted(e.replace("s.b.", "<default>.stg.") for e in exp)))
    return out + unq


def core_scripts(r, n):
    """scripts of 1-4 statements of the fragment of c04_script_exact_on_core: INSERT [cols] / CTAS / VIEW over one SELECT (no
    WHERE) from 1-2 distinct base tables, column references qualified (or one table in scope), stars, item aliases; a small pool
    of tables so that chains, diamonds, dead ends, tables written twice and cycles arise"""
    import astgen as A
    tabs = [(None, "a"), (None, "b"), (None, "c"), ("s", "d"), ("s", "e"), (None, "f")]
    cols = ["x", "y", "z"]
    out = []
    for _ in range(n):
        ss = []
        for _k in range(r.choice([1, 2, 2, 3, 3, 4])):
            tgt = r.choice(tabs)
            srcs = r.sample([t for t in tabs if t != tgt], r.choice([1, 1, 2]))
            rels, names = [], []
            for j, t in enumerate(srcs):
                al = r.choice([None, None, "p%d" % j])
                rels.append(A.rtable(t[0], t[1], al))
                names.append(al or t[1])
            items = []
            if r.random() < 0.2:
                items.append(A.istar(None if len(rels) == 1 and r.random() < 0.5 else names[0]))
            else:
                for _i in range(r.choice([1, 2, 2, 3])):
                    q = r.choice(names) if (len(rels) > 1 or r.random() < 0.5) else None
                    items.append(A.iexpr(A.col(q, r.choice(cols)), r.choice([None, None, r.choice(cols)])))
            q = A.select(items, rels, comma=r.random() < 0.3)
            if r.random() < 0.2 and items[0][0] != "star":
                # UNION of two plain SELECTs of the same arity (second branch: another table, own names)
                t2 = r.choice([t for t in tabs if t != tgt])
                al2 = r.choice([None, "u0"])
                items2 = [A.iexpr(A.col(r.choice([None, al2 or t2[1]]), r.choice(cols)), None) for _ in items]
                q = A.union(q, A.select(items2, [A.rtable(t2[0], t2[1], al2)]))
            kind = r.choice(["insert", "insert", "insertc", "ctas", "view", "query"])
            if kind == "query" and q[0] == "select":
                ss.append(("query", q))
                continue
            if kind == "query":
                kind = "insert"
            if kind == "insertc" and items[0][0] != "star":
                ss.append(("insert", tgt, r.sample(cols + ["k", "m"], len(items)), q))
            elif kind in ("ctas", "view"):
                ss.append((kind, tgt, q))
            else:
                ss.append(("insert", tgt, None, q))
        out.append(ss)
    return out


def main() -> int:
    ck = Check("C04")
    ck.assumptions += ["the per-statement dataflows composed in S1 are the implementation's own per-statement results (their exactness is C02)",
                       "S1 is evaluated on scripts in which every source column is resolved and no DROP/RENAME occurs"]
    ck.trusted += ["Gallina models Tree/Script.v (statement loop + session), Holder/Build.v (assembly, paths), Provider/Session.v, tied by suite T4 (this run)",
                   "harness/c04.py, harness/t2tie.py, harness/gen_scripts.py"]
    proofs_ok = ck.proofs()
    quick = tier() == "quick"
    r = rng("c04")
    recs = []
    for _ in range(260 if quick else 3000):
        k = r.choice([2, 2, 3, 4])
        stmts = gen_scripts.gen_chain(r, k)
        recs.append({"sql": ";\n".join(stmts), "dialect": "ansi", "metadata": gen_scripts.gen_metadata(r) if r.random() < 0.5 else None,
                     "config": {}, "origin": "chain"})
    recs += gen_scripts.gen_records(r, 120 if quick else 1500)
    special = star_scripts(r)
    res = t2tie.run_scripts(recs + [x for x, _ in special])
    spec_failures, disagreements, known_hits = [], [], {}
    dist = {"scripts": len(recs), "compared": 0, "s1_checked": 0, "s1_skipped_unresolved": 0, "s2_checked": 0, "with_metadata": 0,
            "statements_hist": {}, "cyclic": 0}
    for i, x in enumerate(res):
        ck.count()
        if "skip" in x:
            continue
        dist["compared"] += 1
        dist["with_metadata"] += bool(x["rec"].get("metadata"))
        n = x["stats"]["statements"]
        dist["statements_hist"][n] = dist["statements_hist"].get(n, 0) + 1
        case = {"sql": x["rec"]["sql"], "metadata": x["rec"].get("metadata"), "origin": x["rec"].get("origin")}
        if x["impl"] != x.get("model"):
            if x["stats"].get("multi_rename"):
                continue
            a, b = x["impl"], x.get("model", "")
            k = next((j for j in range(min(len(a), len(b))) if a[j] != b[j]), min(len(a), len(b)))
            disagreements.append(dict(case, impl=a[max(0, k - 200):k + 400], model=b[max(0, k - 200):k + 400]))
        if x["impl"].startswith("ERR"):
            continue
        pairs = x["summary"].split("#", 1)[1]
        if pairs:
            ck.nontriv((x["rec"]["sql"], json.dumps(x["rec"].get("metadata"), sort_keys=True)))
        if i >= len(recs):
            exp = special[i - len(recs)][1]
            if exp is None:
                continue        # tie only
            dist["s2_checked"] += 1
            if sorted(p for p in pairs.split(";") if p) != exp:
                spec_failures.append(dict(case, suite="S2-known-earlier", impl_pairs=pairs, expected_pairs=exp,
                                          spec="the columns of a table created earlier in the script are known to later statements"))
            continue
        # S1: relational composition
        low = x["rec"]["sql"].lower()
        if "{" in "".join(a + b for ps in x["stmt_pairs"] for a, b in ps) or "drop table" in low or "rename" in low:
            dist["s1_skipped_unresolved"] += 1
            continue
        exp, cyclic = closure_pairs(x["stmt_pairs"])
        dist["s1_checked"] += 1
        got = sorted(p for p in pairs.split(";") if p)
        if got != exp:
            final_graph = x["impl"].split("%", 1)[1].split("@", 1)[0]
            edge_sources = {e.split(">C:", 1)[0] for e in final_graph.split("#E=", 1)[1].split(";") if e.endswith(":lineage")}
            missing = [p for p in exp if p not in got]
            extra = [p for p in got if p not in exp]
            dead_end = lambda p: any(src.startswith("C:" + p.split(">", 1)[1] + "{") or
                                     src.startswith("C:" + p.rsplit(">", 1)[1] + "{") for src in edge_sources)
            lin = [e[:-len(":lineage")].split(">C:", 1) for e in final_graph.split("#E=", 1)[1].split(";") if e.endswith(":lineage") and ">C:" in e]
            adj = {}
            for a, b in lin:
                adj.setdefault(a, set()).add("C:" + b)
            def has_cycle():
                state = {}
                def visit(n):
                    state[n] = 1
                    for m in adj.get(n, ()):
                        if state.get(m) == 1 or (m not in state and visit(m)):
                            return True
                    state[n] = 2
                    return False
                return any(n not in state and visit(n) for n in list(adj))
            if cyclic or has_cycle():
                dist["cyclic"] += 1
                known_hits.setdefault("K-C04-2", dict(case, impl_pairs=got, composed=exp))
            elif not extra and missing and all(dead_end(p) for p in missing):
                dist["dead_end"] = dist.get("dead_end", 0) + 1
                known_hits.setdefault("K-C04-3", dict(case, impl_pairs=got, composed=exp, missing=missing))
            else:
                spec_failures.append(dict(case, suite="S1-composition", impl_pairs=got, composition_of_statement_dataflows=exp,
                                          statement_dataflows=x["stmt_pairs"],
                                          spec="end-to-end pairs equal the relational composition of the per-statement dataflows"))
    # S3: the theorem c04_script_exact_on_core speaks about rendered trees; here the implementation is compared with the
    # executable specification spec_script_pairs (evaluated in Coq together with the theorem's guard) on generated scripts
    import astgen
    from common import coq_eval
    cs = core_scripts(r, 150 if quick else 2500)
    exprs = ["(if forallb core_ok_u [%s] || forallb core_ok_ext [%s] then \"in:\" else \"out:\") ++ join \";\" (spec_script_pairs \"\" [%s])"
             % (("; ".join(astgen.g_stmt(x) for x in ss),) * 3) for ss in cs]
    spec_out = coq_eval("From SV Require Import Ast.Spec Tree.LemmaB Tree.LemmaBProofs Tree.ScriptExact Tree.ScriptExactUnion Tree.ScriptExactExt.\nOpen Scope string_scope.", exprs, shard=200)
    impl_out = t2tie.summaries([{"sql": "\n".join(astgen.to_sql(x) for x in ss), "dialect": "ansi", "metadata": None, "config": {}} for ss in cs])
    dist["s3_core_scripts"] = {"scripts": len(cs), "inside_guard": 0, "nonempty": 0, "statements": {}}
    for ss, sp, im in zip(cs, spec_out, impl_out):
        ck.count()
        sql = "\n".join(astgen.to_sql(x) for x in ss)
        if not sp.startswith("in:"):
            continue
        d3 = dist["s3_core_scripts"]
        d3["inside_guard"] += 1
        d3["statements"][len(ss)] = d3["statements"].get(len(ss), 0) + 1
        exp = sp[3:]
        got = im.split("#", 1)[1] if "#" in im else im
        if exp:
            d3["nonempty"] += 1
            ck.nontriv(("core-script", sql))
        if got != exp:
            spec_failures.append({"suite": "S3-core-script-vs-specification", "sql": sql, "impl_pairs": got, "spec_script_pairs": exp,
                                  "spec": "the end-to-end pairs of a script are the pairs (unwritten source column, unread target column) "
                                          "connected by one or more of the statements' column flows (theorems c04_script_exact_on_core, c04_script_exact_on_core_with_unions)"})
    # S3x: the same for scripts whose statements have EXPRESSION items (c04_script_exact_on_core_with_expressions, guard core_ok_x2)
    def with_exprs(ss):
        out2 = []
        for st in ss:
            q = st[-1]
            if st[0] not in ("insert", "ctas", "view") or q[0] != "select":
                return None
            names = [rr[2] or rr[1][1] for rr in q[2]]
            items = []
            for it in q[1]:
                if it[0] == "star":
                    items.append(it)
                    continue
                e1 = it[1]
                other = astgen.col(r.choice(names), r.choice(["x", "y", "z"]))
                e2 = r.choice([astgen.bin_(e1, other), astgen.fun(e1, astgen.LIT), astgen.cast(e1), astgen.case(other, e1, astgen.LIT),
                               astgen.win(e1, other, other), e1])
                if e2 is not e1 and e1[1] is None:
                    e2 = e1            # an unqualified reference stays alone (resolved_x wants qualified ones inside expressions over 2 tables)
                items.append(astgen.iexpr(e2, it[2] or (r.choice(["x", "y", "z", "w"]) if e2 is not e1 else None)))
            out2.append(st[:-1] + (astgen.select(items, q[2], q[3], q[4]),))
        return out2
    csx = [y for y in (with_exprs(ss) for ss in core_scripts(r, 120 if quick else 2000)) if y]
    exprs_x = ["(if forallb core_ok_x2 [%s] then \"in:\" else \"out:\") ++ join \";\" (spec_script_pairs \"\" [%s])"
               % (("; ".join(astgen.g_stmt(x) for x in ss),) * 2) for ss in csx]
    spec_x = coq_eval("From SV Require Import Ast.Spec Tree.LemmaB Tree.ScriptExact Tree.RenderExpr Tree.LemmaBExpr Tree.ScriptExactExpr.\nOpen Scope string_scope.", exprs_x, shard=100)
    impl_x = t2tie.summaries([{"sql": "\n".join(astgen.to_sql(x) for x in ss), "dialect": "ansi", "metadata": None, "config": {}} for ss in csx])
    dist["s3x_scripts_with_expressions"] = {"scripts": len(csx), "inside_guard": 0, "nonempty": 0}
    for ss, sp, im in zip(csx, spec_x, impl_x):
        ck.count()
        if not sp.startswith("in:"):
            continue
        sql = "\n".join(astgen.to_sql(x) for x in ss)
        dist["s3x_scripts_with_expressions"]["inside_guard"] += 1
        exp = sp[3:]
        got = im.split("#", 1)[1] if "#" in im else im
        if exp:
            dist["s3x_scripts_with_expressions"]["nonempty"] += 1
            ck.nontriv(("core-script-x", sql))
        if got != exp:
            spec_failures.append({"suite": "S3x-script-with-expressions-vs-specification", "sql": sql, "impl_pairs": got, "spec_script_pairs": exp,
                                  "spec": "theorem c04_script_exact_on_core_with_expressions: the pairs connected by one or more statement flows"})
    ok = [x for x in res if "summary" in x and x["summary"].split("#", 1)[1]]
    if ok:
        ck.sample({"script": ok[0]["rec"]["sql"], "pairs": ok[0]["summary"].split("#", 1)[1][:300]})
    # recorded findings: replay
    from sqllineage.runner import LineageRunner
    from sqllineage.core.metadata.dummy import DummyMetaDataProvider
    for f in load_known():
        if f["property"] != "C04" or f["status"] != "known" or "replay" not in f:
            continue
        rp = f["replay"]
        lr = LineageRunner(rp["sql"], metadata_provider=DummyMetaDataProvider(rp.get("metadata") or {}))
        lr._eval()
        got = t2tie.summary(lr).split("#", 1)[1]
        ck.count()
        if got == rp["observed"]:
            ck.known(f["id"], f["what"] + " (replayed: %r -> %r)" % (rp["sql"], got))
        elif got != rp["expected"]:
            spec_failures.append({"suite": "known-finding-replay", "finding": f["id"], "sql": rp["sql"], "impl": got,
                                  "recorded_defect": rp["observed"], "spec": rp["expected"]})
    known = {f["id"]: f for f in load_known() if f["property"] == "C04" and f["status"] == "known"}
    for kid, case in known_hits.items():
        if kid not in known:
            spec_failures.append(dict(case, spec="class %s not recorded" % kid))
        elif "replay" not in known[kid]:
            ck.known(kid, known[kid]["what"] + " (e.g. %r)" % case["sql"][:150])
    ck.notes["input_distribution"] = dist
    ck.conclude(spec_failures, disagreements, proofs_ok,
                "correspondence T4 between Tree/Script.v + Holder/Build.v (theorems c04_*) and sqllineage/runner.py, holders.py, metadata_provider.py",
                "relational composition and the created-earlier scenarios were evaluated on every script of this run; no failing input")
    return ck.finish(rule="chains of 2-4 generated statements in which later statements read earlier targets (17 select bodies x wrappers, "
                          "with/without metadata), mixed scripts, and 200 scenarios reading re-created tables (also with a stale catalog definition) with SELECT * / unqualified columns "
                          "under a provider; non-trivial = distinct script with >=1 end-to-end pair")


if __name__ == "__main__":
    raise SystemExit(main())
