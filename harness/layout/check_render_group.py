"""join groups: generator for check_render_chain.py (run:  ... check_render_chain.py groups)"""
import astgen


def run(compare, r):
    col = lambda q, c: astgen.iexpr(astgen.col(q, c))
    tabs = [(None, "t1"), ("s1", "t2"), (None, "t3"), ("s2", "t4"), (None, "t5")]
    def tb():
        sc, n = r.choice(tabs)
        return astgen.rtable(sc, n, r.choice([None, None, "a%d" % r.randrange(1, 9)]))
    def rel():
        return astgen.rgroup(tb(), tb()) if r.random() < 0.5 else tb()
    out = []
    for _ in range(80):
        n = r.choice([1, 1, 2, 2, 3])
        frm = [rel() for _ in range(n)]
        if not any(x[0] == "group" for x in frm):
            frm[r.randrange(n)] = astgen.rgroup(tb(), tb())
        q = astgen.select([col(None, "cx"), astgen.iexpr(astgen.fun(astgen.col(None, "cy"), astgen.LIT), "k")], frm, r.random() < 0.4, None)
        k = r.choice(["query", "insert", "ctas"])
        out.append({"query": ("query", q), "insert": ("insert", (None, "out2"), None, q), "ctas": ("ctas", ("s3", "out1"), q)}[k])
    return compare("join groups", "From SV Require Import Tree.RenderGroup.", "show_render_g", out)
