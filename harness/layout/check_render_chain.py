"""Layout check for theories/Tree/RenderChain.v (CTE chains; join groups once rendered): the statement is printed by the
   harness printer (astgen.to_sql), parsed by the real ANSI parser, serialised like the T3-render suite and compared with
   [show_render_c] / [show_render_g] evaluated in Coq.
   Run:  PYTHONPATH=/repo:/verif/harness /venv/bin/python /tmp/pf_expr/check_render_chain.py
"""
import pathlib, random, re, subprocess, sys, tempfile
sys.path.insert(0, "/verif/harness")
import astgen                                                       # noqa: E402
from sqllineage.core.parser.sqlfluff.analyzer import SqlFluffLineageAnalyzer   # noqa: E402

ROOT = pathlib.Path("/verif/coq")
an = SqlFluffLineageAnalyzer(".", "ansi")


def show(x):
    kids = [k for k in x.segments if not (k.is_whitespace or k.is_comment or k.is_meta)]
    head = x.type + "/" + x.get_type() + "/" + ",".join(sorted(c for c in x.class_types if c != "base"))
    return head + ("=" + x.raw if not x.segments else "(" + " ".join(show(k) for k in kids) + ")")


def coq_eval(header, exprs):
    with tempfile.TemporaryDirectory() as d:
        path = pathlib.Path(d) / "Cases.v"
        lines = [header, "Open Scope string_scope.", "Set Printing Width 100000000.", "Set Printing Depth 100000000."]
        lines += ["Eval vm_compute in (%s)." % e for e in exprs]
        path.write_text("\n".join(lines) + "\n")
        p = subprocess.run(["bash", "-c", "ulimit -s unlimited 2>/dev/null; exec timeout 1500 coqc -Q %s SV -w none %s"
                            % (ROOT / "theories", path)], capture_output=True, text=True, cwd=d)
        if p.returncode != 0:
            raise RuntimeError(p.stderr[-2000:])
    res = []
    for chunk in re.split(r"\n\s+: string\n", p.stdout + "\n"):
        chunk = chunk.strip()
        if chunk:
            m = re.match(r'=\s*"((?:[^"]|"")*)"(?:%string)?$', chunk, re.S)
            res.append(m.group(1).replace('""', '"'))
    assert len(res) == len(exprs), (len(res), len(exprs))
    return res


def compare(label, header, fn, stmts):
    opts = astgen.Opts(kw_case="lower", trailing="")
    rendered = coq_eval(header, ["%s %s" % (fn, astgen.g_stmt(s)) for s in stmts])
    bad = 0
    for s, m in zip(stmts, rendered):
        sql = astgen.to_sql(s, opts)
        try:
            p = show(an._list_specific_statement_segment(sql)[0])
        except Exception as ex:        # noqa: BLE001
            p = "ERR:" + type(ex).__name__
        if p != m:
            bad += 1
            if bad <= 4:
                k = next((j for j in range(min(len(p), len(m))) if p[j] != m[j]), 0)
                print("MISMATCH", sql, "\n  parser  :", p[max(0, k - 150):k + 200], "\n  rendered:", m[max(0, k - 150):k + 200])
    print("%s: %d statements, mismatches: %d   e.g. %s" % (label, len(stmts), bad, astgen.to_sql(stmts[-1], opts)))
    return bad


def gen_chains(r):
    col = lambda q, c: astgen.iexpr(astgen.col(q, c))
    def sel(tables, items=None, where=None):
        return astgen.select(items or [col(None, "cx")], [astgen.rtable(sc, n, al) for sc, n, al in tables], False, where)
    names = ["c1", "c2", "c3", "c4"]
    out = []
    for _ in range(60):
        n = r.choice([1, 2, 2, 3, 4])
        defs = []
        for i in range(n):
            src = r.choice([(None, "t1", None), ("s1", "t2", None), (None, "t3", "u")] + [(None, names[j], None) for j in range(i)])
            d = sel([src])
            kind = r.random()
            if kind < 0.2:
                d = astgen.union(d, sel([(None, "t5", None)]))
            elif kind < 0.4:
                d = sel([src], where=("ck", sel([("s2", "t4", None)])))
            elif kind < 0.6:
                d = astgen.select([col(None, "cx")], [astgen.rderived(sel([src]), "dd")], False, None)
            elif kind < 0.75:
                d = sel([src], items=[astgen.iexpr(astgen.fun(astgen.col(None, "cx"), astgen.LIT), "k"), astgen.istar(None)])
            defs.append((names[i], d))
        body = sel([(None, r.choice(names[:n]), None)] + ([("s1", "t9", "z")] if r.random() < 0.4 else []))
        if r.random() < 0.25:
            body = astgen.union(body, sel([(None, names[0], None)]))
        q = body
        for nm, d in reversed(defs):
            q = astgen.with_(nm, d, q)
        k = r.choice(["query", "insert", "insertc", "ctas", "view"])
        st = {"query": ("query", q), "insert": ("insert", (None, "out2"), None, q), "insertc": ("insert", ("s3", "out1"), ["p"], q),
              "ctas": ("ctas", (None, "out2"), q), "view": ("view", ("s3", "out1"), q)}[k]
        out.append(st)
    return out


def main():
    r = random.Random(20261001)
    bad = compare("CTE chains", "From SV Require Import Tree.RenderChain.", "show_render_c", gen_chains(r))
    if len(sys.argv) > 1 and sys.argv[1] == "groups":
        import check_render_group
        bad += check_render_group.run(compare, r)
    return 1 if bad else 0


if __name__ == "__main__":
    sys.exit(main())
