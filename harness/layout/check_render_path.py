#!/usr/bin/env python
"""Layout + result check for theories/Tree/RenderPath.v (COPY, INSERT OVERWRITE DIRECTORY, file references).
(1) show_render_p p (Coq, vm_compute) must be the real parser's tree (trivia stripped) of the printed statement:
    PCopy with the postgres dialect, PCopyInto with snowflake, PInsertDir and PSelectFile with sparksql.
(2) inside pstmt_ok the specification (p_reads / p_writes) must be what LineageRunner reports.
usage:  PYTHONPATH=/repo /venv/bin/python check_render_path.py [N per kind, default 15] [seed]
"""
import pathlib, random, re, subprocess, sys, tempfile, warnings
warnings.filterwarnings("ignore")
ROOT = pathlib.Path("/verif/coq")
N = int(sys.argv[1]) if len(sys.argv) > 1 else 15
SEED = int(sys.argv[2]) if len(sys.argv) > 2 else 20260930
r = random.Random(SEED)
NAMES = ["t", "u", "v", "w", "tab1", "x_2", "orders"]
COLS = ["a", "b", "c", "k", "col_1"]
SCHEMAS = ["s", "db.sch", "main"]
PATHS = ["/tmp/x", "/tmp/data/x.csv", "s3://bucket/key/f.parquet", "hdfs://nn/a/b", "/tmp/Data/X.CSV", "file.txt", "/a_b/c-d/e.1"]
BUCKETS = ["s3://bucket/key/f.parquet", "s3://b/x", "gcs://b/dir/f.csv", "azure://acct.blob.core.windows.net/c/f", "s3://Bucket/Key"]
STAGES = ["@stage/x", "@my_stage/dir/f.csv", "@Stage/X", "@%t/f"]
cs = lambda s: '"' + s + '"'
copt = lambda x, f=cs: "None" if x is None else "(Some %s)" % f(x)
def gen_tref(): return (r.choice([None, None, r.choice(SCHEMAS)]), r.choice(NAMES))
def g_tref(t): return "(%s, %s)" % (copt(t[0]), cs(t[1]))
def p_tref(t): return (t[0] + "." if t[0] else "") + t[1]
def gen_item():
    if r.random() < 0.25: return ("star", r.choice([None, None, r.choice(NAMES)]))
    return ("col", r.choice([None, None, r.choice(NAMES)]), r.choice(COLS), r.choice([None, None, r.choice(COLS)]))
def g_item(i): return "IStar %s" % copt(i[1]) if i[0] == "star" else "IExpr (EColRef %s %s) %s" % (copt(i[1]), cs(i[2]), copt(i[3]))
def p_item(i): return (i[1] + "." if i[1] else "") + "*" if i[0] == "star" else (i[1] + "." if i[1] else "") + i[2] + (" as " + i[3] if i[3] else "")
def gen_rel(depth):
    if depth > 0 and r.random() < 0.3: return ("derived", gen_query(depth - 1), r.choice(NAMES))
    return ("table", gen_tref(), r.choice([None, None, r.choice(NAMES)]))
def g_rel(x): return "RDerived (%s) %s" % (g_query(x[1]), cs(x[2])) if x[0] == "derived" else "RTable %s %s" % (g_tref(x[1]), copt(x[2]))
def p_rel(x): return "(%s) as %s" % (p_query(x[1]), x[2]) if x[0] == "derived" else p_tref(x[1]) + (" as " + x[2] if x[2] else "")
def gen_select(depth, allow_comma=True):
    items = [gen_item() for _ in range(r.choice([1, 1, 2]))]
    frm = [gen_rel(depth) for _ in range(r.choice([1, 1, 2, 3]))]
    cj = allow_comma and r.random() < 0.5
    wh = (r.choice(COLS), gen_query(depth - 1, False)) if depth > 0 and r.random() < 0.3 else None
    return ("select", items, frm, cj, wh)
def gen_query(depth, allow_comma=True):
    if depth > 0 and r.random() < 0.2: return ("union", gen_select(depth - 1, allow_comma), gen_select(depth - 1, allow_comma))
    return gen_select(depth, allow_comma)
g_list = lambda l: "[" + "; ".join(l) + "]"
def g_query(q):
    if q[0] == "union": return "QUnion (%s) (%s)" % (g_query(q[1]), g_query(q[2]))
    wh = "None" if q[4] is None else "(Some (%s, %s))" % (cs(q[4][0]), g_query(q[4][1]))
    return "QSelect %s %s %s %s" % (g_list([g_item(i) for i in q[1]]), g_list([g_rel(x) for x in q[2]]), "true" if q[3] else "false", wh)
def p_query(q):
    if q[0] == "union": return "%s union all %s" % (p_query(q[1]), p_query(q[2]))
    frm = ", ".join(p_rel(x) for x in q[2]) if q[3] else p_rel(q[2][0]) + "".join(" join %s on 1 = 1" % p_rel(x) for x in q[2][1:])
    return "select %s from %s%s" % (", ".join(p_item(i) for i in q[1]), frm, "" if q[4] is None else " where %s in (%s)" % (q[4][0], p_query(q[4][1])))

def gen_p(kind):
    if kind == "copy":
        cols = [r.choice(COLS) for _ in range(r.choice([1, 2, 3]))] if r.random() < 0.4 else None
        return ("copy", gen_tref(), cols, r.choice(PATHS))
    if kind == "copyinto":
        return ("copyinto", gen_tref(), r.choice(BUCKETS), True) if r.random() < 0.5 else ("copyinto", gen_tref(), r.choice(STAGES), False)
    if kind == "insdir":
        return ("insdir", r.random() < 0.3, r.choice(PATHS), gen_query(2))
    return ("selfile", [gen_item() for _ in range(r.choice([1, 2]))], r.choice(["parquet", "csv", "json", "orc"]), r.choice(PATHS), r.choice([None, None, r.choice(NAMES)]))
def g_p(p):
    if p[0] == "copy": return "PCopy %s %s %s" % (g_tref(p[1]), "None" if p[2] is None else "(Some %s)" % g_list([cs(c) for c in p[2]]), cs(p[3]))
    if p[0] == "copyinto": return "PCopyInto %s %s %s" % (g_tref(p[1]), cs(p[2]), "true" if p[3] else "false")
    if p[0] == "insdir": return "PInsertDir %s %s (%s)" % ("true" if p[1] else "false", cs(p[2]), g_query(p[3]))
    return "PSelectFile %s %s %s %s" % (g_list([g_item(i) for i in p[1]]), cs(p[2]), cs(p[3]), copt(p[4]))
def p_p(p):
    if p[0] == "copy": return "copy %s%s from '%s'" % (p_tref(p[1]), "" if p[2] is None else " (%s)" % ", ".join(p[2]), p[3])
    if p[0] == "copyinto": return "copy into %s from %s" % (p_tref(p[1]), "'%s'" % p[2] if p[3] else p[2])
    if p[0] == "insdir": return "insert overwrite %sdirectory '%s' %s" % ("local " if p[1] else "", p[2], p_query(p[3]))
    return "select %s from %s.`%s`%s" % (", ".join(p_item(i) for i in p[1]), p[2], p[3], " as " + p[4] if p[4] else "")
DIALECT = {"copy": "postgres", "copyinto": "snowflake", "insdir": "sparksql", "selfile": "sparksql"}

def coq_eval(exprs):
    with tempfile.TemporaryDirectory() as td:
        path = pathlib.Path(td) / "Cases.v"
        lines = ["From SV Require Import Tree.RenderPath Tree.LemmaA Tree.LemmaAPathDefs.", "Open Scope string_scope.", "Open Scope list_scope.",
                 "Set Printing Width 100000000.", "Set Printing Depth 100000000."] + ["Eval vm_compute in (%s)." % e for e in exprs]
        path.write_text("\n".join(lines) + "\n")
        p = subprocess.run(["bash", "-c", "ulimit -s unlimited 2>/dev/null; exec timeout 900 coqc -Q %s SV -w none %s" % (ROOT / "theories", path)],
                           capture_output=True, text=True, cwd=td)
        if p.returncode != 0: raise RuntimeError("coqc failed: " + p.stderr[-3000:])
        res = []
        for chunk in re.split(r"\n\s+: string\n", p.stdout + "\n"):
            chunk = chunk.strip()
            if not chunk: continue
            m = re.match(r'=\s*"((?:[^"]|"")*)"(?:%string)?$', chunk, re.S)
            if not m: raise RuntimeError("cannot parse Coq output chunk: %r" % chunk[:300])
            res.append(m.group(1).replace('""', '"'))
        assert len(res) == len(exprs), (len(res), len(exprs))
        return res
def show(x):
    kids = [k for k in x.segments if not (k.is_whitespace or k.is_comment or k.is_meta)]
    head = x.type + "/" + x.get_type() + "/" + ",".join(sorted(c for c in x.class_types if c != "base"))
    return head + ("=" + x.raw if not x.segments else "(" + " ".join(show(k) for k in kids) + ")")

def main():
    from sqllineage.core.parser.sqlfluff.analyzer import SqlFluffLineageAnalyzer
    from sqllineage.runner import LineageRunner
    an = {d: SqlFluffLineageAnalyzer(".", d) for d in set(DIALECT.values())}
    cases = [gen_p(k) for k in ("copy", "copyinto", "insdir", "selfile") for _ in range(N)]
    rend = coq_eval(["show_render_p (%s)" % g_p(p) for p in cases])
    spec = coq_eval(['((if pstmt_ok (%s) then "in" else "out") ++ "|" ++ show_tables_p "" (%s))%%string' % (g_p(p), g_p(p)) for p in cases])
    bad, per, tie = 0, {}, {"in": 0, "out": 0, "spec_mismatch": 0, "out_agrees_anyway": 0}
    for p, m, sp in zip(cases, rend, spec):
        sql, d = p_p(p), DIALECT[p[0]]
        per[p[0]] = per.get(p[0], 0) + 1
        try: tree = show(an[d]._list_specific_statement_segment(sql)[0])
        except Exception as e: tree = "ERR:" + type(e).__name__ + ":" + str(e)[:200]
        if tree != m:
            bad += 1
            k = next((j for j in range(min(len(tree), len(m))) if tree[j] != m[j]), 0)
            print("LAYOUT MISMATCH [%s] %s\n  ast: %s\n  parser:   ...%s\n  rendered: ...%s" % (d, sql, g_p(p), tree[max(0, k - 150):k + 250], m[max(0, k - 150):k + 250]))
        inside, tables = sp.split("|")
        tie[inside] += 1
        try:
            lr = LineageRunner(sql, dialect=d)
            got = "R=%s;W=%s" % (",".join(sorted(map(str, lr.source_tables))), ",".join(sorted(map(str, lr.target_tables))))
        except Exception as ex:
            got = "ERR:" + type(ex).__name__
        if inside == "in" and got != tables:
            tie["spec_mismatch"] += 1; bad += 1
            print("TABLES MISMATCH [%s] %s\n  implementation: %s\n  specification:  %s" % (d, sql, got, tables))
        if inside == "out" and got == tables: tie["out_agrees_anyway"] += 1
    print("tables tie:", tie)
    print("checked %d statements %s (seed %d): %d mismatches" % (len(cases), per, SEED, bad))
    print("example: %s" % p_p(cases[2 * N]))
    sys.exit(1 if bad else 0)
if __name__ == "__main__":
    main()
