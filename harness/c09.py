"""C09 - dialects and both parsers agree on core SQL.

Proof obligations: coq/theories/Props/C09.v (the extractors are dialect-parametric: the dialect name is
only compared with "vertica").  With the tie (tree model = extractors on every parser tree, per dialect)
cross-dialect agreement reduces to agreement of the parse trees, which is the parser's business (oracle);
it is observed here for every generated core statement under every installed dialect, and against the
legacy non-validating analyzer at table level."""
from __future__ import annotations

from collections import Counter, defaultdict

import astgen
import sqltie
import t2tie
from common import seed, Check, load_known, rng, tier


from sqltie import DIALECT_CLASSES as CLASSES, has_group_with_derived, has_where_in, has_window  # noqa: E402,F401


# per-dialect deviations on statements of recorded classes (dialect, class) -> recorded C09 class
DIALECT_VARIANT_CLASSES = {("clickhouse", "K-C01-4"): "K-C09-1", ("exasol", "K-C02-8"): "K-C09-2",
                           ("sqlite", "K-C01-4"): "K-C09-9", ("trino", "K-C01-4"): "K-C09-9", ("tsql", "K-C01-4"): "K-C09-9",
                           ("redshift", "K-C01-11"): "K-C09-11", ("exasol", "K-C01-7"): "K-C09-10", ("sqlite", "K-C01-7"): "K-C09-10", ("tsql", "K-C01-7"): "K-C09-10"}


def main() -> int:
    ck = Check("C09")
    ck.assumptions += ["which statements a dialect accepts, and the shape of its trees, is the parser's business (oracle); deviations that come from tree shape are recorded per (dialect, construct)",
                       "the legacy sqlparse analyzer is not modelled: its table-level agreement is observed, not proved"]
    ck.trusted += ["tree model Tree/*.v with dialect reduced to the vertica test (Props/C09.v), tied per dialect by suite T2 (this run)", "harness/c09.py"]
    proofs_ok = ck.proofs()
    quick = tier() == "quick"
    r = rng("c09")
    spec_failures, disagreements, known_hits = [], [], {}
    known_all = {f["id"]: f for f in load_known() if f["property"] == "C09" and f["status"] == "known"}
    n = 60 if quick else 1500
    stmts = astgen.gen_batch(r, n, (0, 1, 2), shapes=45 if quick else None)
    dialects = sqltie.installed_dialects()
    spec = sqltie.spec_strings(stmts)
    o = astgen.Opts(fun4=True)
    recs, meta = [], []
    for d in dialects + ["non-validating"]:
        for i, s in enumerate(stmts):
            recs.append({"sql": astgen.to_sql(s, o), "dialect": d, "metadata": None, "config": {}})
            meta.append((d, i))
    out = t2tie.summaries(recs)
    by = defaultdict(dict)
    for (d, i), x in zip(meta, out):
        by[i][d] = x
    dist = {"statements": n, "dialects": len(dialects), "accepted": Counter(), "rejected": Counter(), "deviations": Counter()}
    for i, s in enumerate(stmts):
        accepted = {d: x for d, x in by[i].items() if not x.startswith("ERR:InvalidSyntax") and not x.startswith("ERR:UnsupportedStatement")}
        for d in by[i]:
            (dist["accepted"] if d in accepted else dist["rejected"])[d] += 1
        fluff = {d: x for d, x in accepted.items() if d != "non-validating"}
        if not fluff:
            continue
        ref = Counter(fluff.values()).most_common(1)[0][0]
        ck.count()
        if ref != spec[i]:
            # the answer most dialects agree on must also be the right one (Ast/Spec.v)
            spec_failures.append({"suite": "majority-vs-specification", "sql": astgen.to_sql(s, o), "most_dialects": ref, "spec": spec[i],
                                  "agreeing_dialects": sorted(k for k, v in fluff.items() if v == ref)[:8]})
        if len(fluff) > 1 and ref.split("#")[0] != "R=;W=":
            ck.nontriv(astgen.to_sql(s))
        for d, x in accepted.items():
            ck.count()
            a, b = (x.split("#")[0], ref.split("#")[0]) if d == "non-validating" else (x, ref)
            if a == b:
                continue
            dist["deviations"][d] += 1
            case = {"suite": "cross-dialect", "dialect": d, "sql": recs[0]["sql"] if False else astgen.to_sql(s, o), "this_dialect": a, "other_dialects": b,
                    "agreeing_dialects": sorted(k for k, v in fluff.items() if v == ref)[:8],
                    "spec": "an accepted core statement means the same under every dialect (and the legacy analyzer reports the same tables)"}
            cls = next((k for k, f in CLASSES if f(d, s)), None)
            if cls and not x.startswith("ERR"):
                known_hits.setdefault(cls, case)
            else:
                spec_failures.append(case)
    # spelling of the JOIN keyword (JOIN / INNER JOIN / LEFT JOIN / LEFT OUTER JOIN, one word per token) with blanks, tabs
    # and line breaks between all tokens: the legacy analyzer and the dialects must still agree on the tables
    ws = ["\n", "\t", "  ", " \n ", "\n\n"]
    oj = astgen.Opts(fun4=True, joins="mixed", noise=lambda i: r.choice(ws) if r.random() < 0.5 else " ")
    jrecs, jmeta = [], []
    for d in ["ansi", "mysql", "postgres", "non-validating"]:
        for i, s in enumerate(stmts):
            jrecs.append({"sql": astgen.to_sql(s, oj), "dialect": d, "metadata": None, "config": {}})
            jmeta.append((d, i))
    jby = defaultdict(dict)
    for (d, i), rec, x in zip(jmeta, jrecs, t2tie.summaries(jrecs)):
        jby[i][d] = (x, rec["sql"])
    import re as _re
    for i, s in enumerate(stmts):
        want = spec[i].split("#")[0]
        for d, (x, sql) in jby[i].items():
            ck.count()
            if x.startswith("ERR:InvalidSyntax") or x.startswith("ERR:UnsupportedStatement"):
                continue
            if d == "non-validating" and (has_group_with_derived(s) or _re.search(r"union(?! all\b)\s+all\b", sql, _re.I)):
                continue        # recorded: K-C09-7, K-C07-1
            if x.split("#")[0] != want:
                spec_failures.append({"suite": "join-keyword-spelling", "dialect": d, "sql": sql, "tables": x.split("#")[0], "spec": want,
                                      "detail": "JOIN keyword kinds with blanks / tabs / line breaks between the words"})
    # set operations whose operands are parenthesised or not, in every combination, at every place a query can stand
    # (INSERT source, CTAS, derived table, CTE body, WHERE-IN sub-query): all dialects and the legacy analyzer must report
    # every branch's table
    import itertools as _it
    par_recs, par_meta = [], []
    for k in (2, 3):
        for pat in _it.product((False, True), repeat=k):
            for op in ("union all", "union"):
                ops = [("(select a from u%d)" if pz else "select a from u%d") % (j + 1) for j, pz in enumerate(pat)]
                body = (" %s " % op).join(ops)
                want = "R=" + ",".join("<default>.u%d" % (j + 1) for j in range(k))
                places = [("insert into o %s" % body, want + ";W=<default>.o"),
                          ("create table o as %s" % body, want + ";W=<default>.o"),
                          ("insert into o select s.a from (%s) s" % body, want + ";W=<default>.o"),
                          ("insert into o select s.a from (%s) as s join w on 1 = 1" % body, want + ",<default>.w;W=<default>.o"),
                          ("insert into o with c as (%s) select a from c" % body, want + ";W=<default>.o"),
                          ("insert into o select a from w where a in (%s)" % body, want + ",<default>.w;W=<default>.o")]
                for sql, wt in places:
                    for d in ("ansi", "mysql", "postgres", "sparksql", "non-validating"):
                        par_recs.append({"sql": sql, "dialect": d, "metadata": None, "config": {}})
                        par_meta.append((d, sql, wt, pat))
    if quick:
        keep = [i for i in range(len(par_recs)) if (i // 5) % 3 == seed() % 3 or par_meta[i][0] == "non-validating"]
        par_recs, par_meta = [par_recs[i] for i in keep], [par_meta[i] for i in keep]
    dist["set_operand_parenthesisation"] = len(par_recs)
    par_defect, par_known = {}, []
    for (d, sql, wt, pat), x in zip(par_meta, t2tie.summaries(par_recs)):
        ck.count()
        if x.startswith("ERR:InvalidSyntax") or x.startswith("ERR:UnsupportedStatement"):
            continue
        ck.nontriv(("paren", d, sql))
        got = x.split("#")[0]
        srt = lambda t: "R=" + ",".join(sorted(t.split(";W=")[0][2:].split(","))) + ";W=" + t.split(";W=")[1]
        if srt(got) != srt(wt):
            case = {"suite": "set-operand-parenthesisation", "dialect": d, "sql": sql, "tables": got, "spec": wt,
                    "detail": "operands parenthesised: %s" % (list(pat),)}
            if " where a in (" in sql and any(pat) and d != "non-validating":
                # recorded class K-C01-12 (all sqlfluff dialects lose the same tables; the legacy analyzer is right): the dialects
                # must still agree with each other
                par_defect.setdefault(sql, {})[d] = got
                par_known.append(case)
            else:
                spec_failures.append(case)
    for sql, by_d in par_defect.items():
        if len(set(by_d.values())) > 1:
            spec_failures.append({"suite": "set-operand-parenthesisation", "sql": sql, "per_dialect": by_d,
                                  "spec": "an accepted core statement means the same under every dialect (class K-C01-12: same deviation everywhere)"})
    if par_known and "K-C09-8" in known_all and "K-C01-12" in known_all["K-C09-8"].get("classes", []):
        ck.known("K-C09-8", "legacy analyzer right, every sqlfluff dialect loses a table: set operation with a parenthesised operand inside IN (...) "
                            "(K-C01-12; %d statements of this run, e.g. %r)" % (len(par_known), par_known[0]["sql"]))
    elif par_known:
        spec_failures.append(par_known[0])
    # statements of the RECORDED defect classes of C01/C02 (which the generator above stays out of) and structural variants of
    # them: whatever the analysers answer there, C09 asks that they answer alike - the dialects among themselves, and the
    # legacy analyser at table level.  Where the legacy analyser is right and the sqlfluff side is not (the same defect seen
    # from here) the class is listed in K-C09-8 and reported as a known finding; any other disagreement is a violation.
    variants = []
    for f in load_known():
        if f["property"] in ("C01", "C02") and f["status"] == "known" and "replay" in f and "sql" in f["replay"] and not f["replay"].get("metadata"):
            variants.append((f["id"], f["replay"]["sql"]))
    inner = "(with n as (select x from t) select x from n) a"
    for k, sib in enumerate(["join n on 1 = 1", "join (select x from n) u on 1 = 1", ", (select x from n) u", "where a.x in (select x from n)",
                             "join (select x from n union all select x from t) u on 1 = 1"]):
        variants.append(("K-C01-5/v%d" % k, "insert into o select a.x from %s %s" % (inner, sib)))
    variants.append(("K-C01-5/r0", "insert into o select a.x from n join %s on 1 = 1" % inner))
    variants.append(("K-C01-5/r1", "insert into o select a.x from (select x from n) u join %s on 1 = 1" % inner))
    for k, body in enumerate(["(select x from a union all select x from b) union all select x from c",
                              "select x from c union all (select x from a union all select x from b)"]):
        variants.append(("K-C01-6/v%d" % k, "insert into o " + body))
    for k, q in enumerate(["select c from a where y in (select k from s.t1, s.t2)", "select c from a, b where y in (select k from s.t1 join s.t2 on 1 = 1)"]):
        variants.append(("K-C01-4/v%d" % k, "insert into x " + q))
    vd = dialects + ["non-validating"]
    vout = t2tie.summaries([{"sql": q, "dialect": d, "metadata": None, "config": {}} for _, q in variants for d in vd])
    legacy_listed = set((known_all.get("K-C09-8") or {}).get("classes", []))
    dist["defect_class_variants"] = len(variants)
    legacy_known = []
    for vi, (cid, q) in enumerate(variants):
        row = dict(zip(vd, vout[vi * len(vd):(vi + 1) * len(vd)]))
        acc = {d: x for d, x in row.items() if not x.startswith("ERR:InvalidSyntax") and not x.startswith("ERR:UnsupportedStatement")}
        fl = {d: x for d, x in acc.items() if d != "non-validating"}
        if not fl:
            continue
        ref = Counter(fl.values()).most_common(1)[0][0]
        for d, x in acc.items():
            ck.count()
            a, b = (x.split("#")[0], ref.split("#")[0]) if d == "non-validating" else (x, ref)
            if a == b:
                continue
            case = {"suite": "defect-class-variants", "class": cid, "dialect": d, "sql": q, "this_dialect": a, "other_dialects": b,
                    "spec": "an accepted core statement means the same under every dialect (and the legacy analyzer reports the same tables)"}
            if d == "non-validating" and cid.split("/")[0] in legacy_listed:
                legacy_known.append(case)
            elif (d, cid.split("/")[0]) in DIALECT_VARIANT_CLASSES:
                known_hits.setdefault(DIALECT_VARIANT_CLASSES[(d, cid.split("/")[0])], case)
            elif d in ("exasol", "sqlite", "tsql") and (q.lstrip().lower().startswith("update ") or " then update set " in q.lower()) and a.split("#")[0] == b.split("#")[0] and len(a.split("#", 1)[1]) < len(b.split("#", 1)[1]):
                # K-C09-10: these dialects lay the right-hand side of SET out as an expression: no column lineage for ANY update
                known_hits.setdefault("K-C09-10", case)
            else:
                spec_failures.append(case)
    if legacy_known and "K-C09-8" in known_all:
        ck.known("K-C09-8", known_all["K-C09-8"]["what"] + " (%d statements of this run, e.g. %r)" % (len(legacy_known), legacy_known[0]["sql"][:120]))
    # T3-render per dialect: on which dialects does the parser lay the Lemma-A fragment out exactly as Tree/Render.v does?  There
    # c09_core_tables_agree_across_dialects applies verbatim (same specified tables under any two of them); a dialect whose
    # trees differ is left to the differential comparison above.  Where the layout agrees the implementation must report the
    # specified tables (checked here per dialect); ansi must agree on every statement (the theorems' anchor).
    rp = sqltie.render_per_dialect(r, 30 if quick else 300, dialects)
    dist["render_layout_agrees"] = {}
    for d, rows in rp.items():
        same = [x for x in rows if x[1]]
        dist["render_layout_agrees"][d] = "%d/%d" % (len(same), len([x for x in rows if not x[2].startswith("ERR")]))
        for q, ok, t, m in rows:
            ck.count()
            if d == "ansi" and not ok:
                k = next((j for j in range(min(len(t), len(m))) if t[j] != m[j]), 0)
                disagreements.append({"suite": "T3-render", "dialect": d, "sql": q, "parser_tree": t[max(0, k - 200):k + 300], "rendered_tree": m[max(0, k - 200):k + 300]})
    # the tie, per dialect, on a sample (the model must equal the extractors whatever the dialect's trees look like)
    sample = stmts[: (25 if quick else 200)]
    for d in (r.sample(dialects, 8) if quick else dialects):
        for x in t2tie.run_scripts(sqltie.records(sample, dialect=d, opts=o)):
            ck.count()
            if "skip" in x:
                continue
            if x["impl"] != x.get("model"):
                disagreements.append({"suite": "T2-per-dialect", "dialect": d, "sql": x["rec"]["sql"], "impl": x["impl"][:1500], "model": x.get("model", "")[:1500]})
    known = {f["id"]: f for f in load_known() if f["property"] == "C09" and f["status"] == "known"}
    for kid, case in known_hits.items():
        if kid in known:
            ck.known(kid, known[kid]["what"] + " (e.g. %r)" % case["sql"][:140])
        else:
            spec_failures.append(dict(case, spec="deviation class %s not recorded" % kid))
    ck.sample({"sql": astgen.to_sql(stmts[0], o), "results": {d: by[0][d][:120] for d in list(by[0])[:4]}})
    ck.notes["input_distribution"] = {k: (dict(v) if isinstance(v, Counter) else v) for k, v in dist.items()}
    ck.conclude(spec_failures, disagreements, proofs_ok,
                "correspondence T2 per dialect between Tree/*.v (theorem c09_dialect_parametric) and sqllineage/core/parser/sqlfluff",
                "every generated statement was analysed under every installed dialect and by the legacy analyzer; no failing input")
    return ck.finish(rule="%d generated core statements (functions printed with 4 arguments) x %d installed sqlfluff dialects + the non-validating analyzer "
                          "(table level); reference = the result most dialects agree on; non-trivial = statement accepted by >=2 dialects with lineage"
                          % (n, len(dialects)))


if __name__ == "__main__":
    raise SystemExit(main())
