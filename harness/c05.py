"""C05 - a script is analysed as exactly the sequence of its statements.

Proof obligations: coq/theories/Props/C05.v (models Split/Tokens.v, Tree/Script.v).
Tie T1: token sequences over every separator variant, printed to text and split by the real
helpers.split, against the model evaluated in Coq.  S: reported statements equal the
generated statements in order; script lineage equals the combination of each statement
analysed on its own (also for T-SQL scripts without semicolons)."""
from __future__ import annotations

import warnings

import astgen
import gen_scripts
import t2tie
from common import Check, coq_eval, coq_string, rng, tier

warnings.filterwarnings("ignore")
HEADER = "From SV Require Import Split.Tokens.\nOpen Scope string_scope."

CODE = ["select", "a", "from", "t", "'x;y'", "1", "+", "insert", "into", "values", "\"q;r\"", "x.y", ",", "case", "when", "then"]


def gen_tokens(r, n):
    toks = []
    for _ in range(n):
        c = r.random()
        if c < 0.42: toks.append(("TCode", r.choice(CODE)))
        elif c < 0.55: toks.append(("TSemi", ";"))
        elif c < 0.62: toks.append(("TLParen", "("))
        elif c < 0.69: toks.append(("TRParen", ")"))
        elif c < 0.79: toks.append(("TWs", r.choice([" ", "  ", "\t"])))
        elif c < 0.87: toks.append(("TNl", "\n"))
        elif c < 0.92: toks.append(("TLineComment", r.choice(["-- c;\n", "--x\n", "-- ; ;\n", "--+ h;\n"])))
        elif c < 0.97: toks.append(("TBlockComment", r.choice(["/* ; */", "/* a\n;b */", "/**/", "/*+ h; */"])))
        else: toks.append(("TEnd", r.choice(["end", "END"])))
    return toks


def render(toks):
    """text such that sqlparse lexes it back into the intended classes: code tokens are separated by a blank
    token when they would otherwise glue together"""
    out, prev = [], None
    res = []
    for k, t in toks:
        if prev in ("TCode", "TEnd") and k in ("TCode", "TEnd"):
            res.append(("TWs", " "))
        res.append((k, t))
        prev = k
    return res, "".join(t for _, t in res)


def classify(sql):
    """what sqlparse's lexer makes of the text, in the model's token classes"""
    import sqlparse
    from sqlparse import tokens as T
    out = []
    for tt, val in sqlparse.lexer.tokenize(sql):
        if tt is T.Punctuation and val == ";": out.append(("TSemi", val))
        elif tt is T.Punctuation and val == "(": out.append(("TLParen", val))
        elif tt is T.Punctuation and val == ")": out.append(("TRParen", val))
        elif tt is T.Whitespace: out.append(("TWs", val))
        elif tt is T.Newline: out.append(("TNl", val))
        elif tt is T.Comment.Single: out.append(("TLineComment", val))
        elif tt is T.Comment.Multiline: out.append(("TBlockComment", val))
        elif tt in T.Keyword and val.upper() == "END": out.append(("TEnd", val))
        elif tt in T.Keyword and val.upper().split()[0] in ("BEGIN", "DECLARE", "GO", "CREATE", "END", "FOR", "WHILE", "LOOP", "DO", "IF"):
            return None     # outside the model
        else: out.append(("TCode", val))
    return out


def g_tok(k, t):
    return k if k in ("TSemi", "TLParen", "TRParen") else "%s %s" % (k, coq_string(t))


def norm(s):
    return " ".join(s.replace(";", " ").split()).lower()


def main() -> int:
    ck = Check("C05")
    ck.assumptions += ["sqlparse's lexer (text -> token classes) is an oracle; the classes the generator intends are checked against it on every case",
                       "BEGIN / DECLARE / GO / loop keywords (procedural blocks) are outside the splitter model",
                       "T-SQL batch splitting without semicolons is done by the sqlfluff parser (oracle); only its use by the runner is checked"]
    ck.trusted += ["Gallina models Split/Tokens.v (sqlparse StatementSplitter.process + helpers.split filter) and Tree/Script.v, tied by suites T1/T4 (this run)",
                   "harness/c05.py"]
    proofs_ok = ck.proofs()
    quick = tier() == "quick"
    r = rng("c05")
    from sqllineage.utils.helpers import split
    from sqllineage.runner import LineageRunner
    from sqllineage.config import SQLLineageConfig
    from sqllineage.core.holders import SQLLineageHolder
    from sqllineage.core.metadata.dummy import DummyMetaDataProvider
    import implgraph
    spec_failures, disagreements = [], []
    dist = {"token_cases": 0, "token_cases_outside_model": 0, "pieces_hist": {}, "scripts": 0, "tsql_scripts": 0, "separator_variants": {}}

    # ---- T1: token sequences ---------------------------------------------------------------
    cases = []
    for _ in range(2500 if quick else 30000):
        toks, sql = render(gen_tokens(r, r.randint(1, 14)))
        cl = classify(sql)
        if cl is None or [k for k, _ in cl] != [k for k, _ in toks]:
            dist["token_cases_outside_model"] += 1
            continue
        cases.append((toks, sql))
    model = coq_eval(HEADER, ["show_split [%s]" % "; ".join(g_tok(k, t) for k, t in toks) for toks, _ in cases], shard=600)
    for (toks, sql), m in zip(cases, model):
        ck.count()
        dist["token_cases"] += 1
        impl = "<|>".join(split(sql))
        n = impl.count("<|>") + 1 if impl else 0
        dist["pieces_hist"][n] = dist["pieces_hist"].get(n, 0) + 1
        if n >= 2:
            ck.nontriv(sql)
        if impl != m:
            disagreements.append({"suite": "T1-tokens", "text": sql, "impl_pieces": impl, "model_pieces": m})
        # S (direct): splitting a reported piece again gives that piece
        for piece in split(sql):
            if split(piece) != [piece]:
                spec_failures.append({"suite": "T1-idempotent", "text": sql, "piece": piece, "resplit": split(piece),
                                      "spec": "every reported statement, analysed on its own, is one statement"})
    ck.sample({"text": cases[5][1], "pieces": split(cases[5][1])})

    # ---- scripts of generated statements x separator variants --------------------------------------
    seps = {"semi": "; ", "semi-nl": ";\n", "double-semi": ";;\n", "line-comment": "; -- next; one\n",
            "block-comment": ";/* a;b */ ", "blank-lines": ";\n\n\n", "semi-comment-semi": "; /* x */ ;\n",
            "hint-only-statement": ";\n/*+ no_merge */ ;\n", "line-hint-only-statement": ";\n--+ ordered\n;\n"}
    n_scripts = 140 if quick else 1500
    for i in range(n_scripts):
        k = r.randint(1, 5)
        stmts = [astgen.to_sql(astgen.gen_stmt(r, r.choice([0, 1])), astgen.Opts(trailing="")) for _ in range(k)]
        if r.random() < 0.3:
            stmts[r.randrange(k)] = "insert into s3.out1 select 'a;b' as k from t4"
        name = r.choice(list(seps))
        dist["separator_variants"][name] = dist["separator_variants"].get(name, 0) + 1
        lead = r.choice(["", "-- header; comment\n", "/* lead */\n", "\n\n", "/*+ lead hint */;\n", "--+ lead\n;"])
        trail = r.choice(["", ";", ";\n-- bye;\n", " ;; ", ";\n/*+ bye */", ";--+ bye\n;"])
        script = lead + seps[name].join(stmts) + trail
        ck.count()
        dist["scripts"] += 1
        try:
            lr = LineageRunner(script)
            lr._eval()
        except Exception as e:
            spec_failures.append({"suite": "scripts", "script": script, "impl": "ERR:" + type(e).__name__, "spec": "analysable"})
            continue
        got = [norm(s) for s in lr.statements()]
        want = [norm(s) for s in stmts]
        ck.nontriv(script)
        if got != want:
            spec_failures.append({"suite": "scripts-statements", "script": script, "reported_statements": lr.statements(),
                                  "expected_statements": stmts, "spec": "the statements reported are exactly the non-empty statements in order"})
            continue
        # combination of each statement analysed on its own
        holders = []
        for s in stmts:
            one = LineageRunner(s)
            one._eval()
            holders += one._stmt_holders
        combined = SQLLineageHolder.of(DummyMetaDataProvider(), *holders)
        a = implgraph.s_graph(lr._sql_holder.graph, canon=True)
        b = implgraph.s_graph(combined.graph, canon=True)
        if a != b:
            spec_failures.append({"suite": "scripts-combination", "script": script, "script_graph": a[:2000], "combination_graph": b[:2000],
                                  "spec": "script lineage equals the combination of each statement's lineage analysed on its own"})
    # ---- T-SQL without semicolons ---------------------------------------------------------------------
    tsql_pool = ["insert into t1 select a from s1", "select x from t2", "update t3 set a = 1", "insert into t4 select b from t1",
                 "create table t5 (a int)", "insert into t1 select a from s1"]
    for i in range(30 if quick else 300):
        k = r.randint(1, 5)
        stmts = [r.choice(tsql_pool) for _ in range(k)]
        script = "\n".join(stmts)
        ck.count()
        dist["tsql_scripts"] += 1
        try:
            with SQLLineageConfig(TSQL_NO_SEMICOLON=True):
                lr = LineageRunner(script, dialect="tsql")
                lr._eval()
                got = [norm(s) for s in lr.statements()]
                graph = implgraph.s_graph(lr._sql_holder.graph, canon=True)
        except Exception as e:
            spec_failures.append({"suite": "tsql", "script": script, "impl": "ERR:" + type(e).__name__})
            continue
        if got != [norm(s) for s in stmts]:
            spec_failures.append({"suite": "tsql-statements", "script": script, "reported_statements": got, "expected_statements": stmts,
                                  "spec": "the statements reported are exactly the statements of the script, in order (T-SQL, no semicolons)"})
            continue
        holders = []
        for s in stmts:
            one = LineageRunner(s, dialect="tsql")
            one._eval()
            holders += one._stmt_holders
        b = implgraph.s_graph(SQLLineageHolder.of(DummyMetaDataProvider(), *holders).graph, canon=True)
        if graph != b:
            spec_failures.append({"suite": "tsql-combination", "script": script, "script_graph": graph[:1500], "combination_graph": b[:1500]})

    # ---- T2-tsql: the model of the T-SQL batch splitter (Tree/TsqlSplit.v) on the parser's own FILE tree: the listed statements
    # and the whole no-semicolon run (split through the raw-text cache, statement loop, assembly) against the implementation ----
    from sqlfluff.core import FluffConfig, Linter
    from sqllineage.core.parser.sqlfluff.analyzer import SqlFluffLineageAnalyzer
    from sqllineage.core.parser.sqlfluff.models import SqlFluffColumn
    import t2tie
    from common import coq_string as _cs
    tsql_scripts = [("insert into a select x from b\ninsert into c select y from d", None),
                    ("insert into a select x from b;\ninsert into c select y from d;", None),
                    ("insert into a select x from b\nGO\ninsert into c select y from a\nselect x from c\nGO", None),
                    ("-- lead\ninsert into a select x from b /* k */ insert into c select y from d -- e", None),
                    ("select a from t select a from t\nselect a  from t", None),
                    ("insert into a select * from b\ninsert into c select * from a", {"<default>.b": ["p", "q"]}),
                    ("insert into a select * from b\ninsert into a select * from b\ninsert into c select * from a", {"<default>.b": ["p", "q"]}),
                    ("with c as (select x from b) insert into a select x from c\nselect x from a union all select y from d", None),
                    ("create table #tmp (a int)\ninsert into #tmp select a from src\ninsert into dst select a from #tmp\ndrop table #tmp", None)]
    seps = ["\n", " ", "\n\n", "\n-- c;\n", " /* ; */ ", ";\n", "\nGO\n"]
    for _ in range(25 if quick else 300):
        k = r.randint(1, 5)
        body = [r.choice(tsql_pool) for _ in range(k)]
        txt = body[0]
        for b_ in body[1:]:
            txt += r.choice(seps) + b_
        tsql_scripts.append((txt, None if r.random() < 0.7 else {"<default>.s1": ["a", "z"], "<default>.t1": ["a", "b"]}))
    an_t = SqlFluffLineageAnalyzer(".", "tsql")
    exprs_l, exprs_s, impl_l, impl_s, kept = [], [], [], [], []
    for sql, md in tsql_scripts:
        try:
            tree = Linter(config=FluffConfig.from_path(path=".", overrides={"dialect": "tsql"})).parse_string(sql.strip()).tree
            term = t2tie.g_seg(tree)
            il = "|".join(x.type + ":" + x.raw for x in an_t._list_specific_statement_segment(sql.strip()))
        except Exception:      # noqa  - unparsable / unserialisable text: nothing to compare
            continue
        provider = DummyMetaDataProvider(md) if md else DummyMetaDataProvider()
        scalar = {}
        orig_sc = SqlFluffColumn._get_column_from_subquery

        def rec_scalar(sub_segment, _o=orig_sc, _sc=scalar):
            rr = _o(sub_segment)
            _sc[sub_segment.raw] = [(c.column, c.qualifier) for c in rr]
            return rr
        SqlFluffColumn._get_column_from_subquery = staticmethod(rec_scalar)
        try:
            with implgraph.StatementTap() as tap, SQLLineageConfig(TSQL_NO_SEMICOLON=True):
                lr = LineageRunner(sql, dialect="tsql", metadata_provider=provider)
                try:
                    lr._eval()
                    hs = [h for _, h in tap.of_runner(lr)]
                    sh = lr._sql_holder
                    isc = "$".join(implgraph.s_graph(h.graph, canon=True) for h in hs) + "%" + "@".join([
                        implgraph.s_graph(sh.graph, canon=True), implgraph.s_roles(sh),
                        implgraph.s_paths(sh.get_column_lineage(True, False), True),
                        implgraph.s_paths(sh.get_column_lineage(False, False), True),
                        implgraph.s_paths(sh.get_column_lineage(True, True), True)])
                except Exception as e:      # noqa
                    isc = "ERR:" + type(e).__name__
        finally:
            SqlFluffColumn._get_column_from_subquery = orig_sc
        base = "[" + "; ".join("(%s, [%s])" % (_cs(t), "; ".join(_cs(c) for c in cs)) for t, cs in (md or {}).items()) + "]"
        kept.append((sql, md))
        impl_l.append(il)
        impl_s.append(isc)
        exprs_l.append("show_list_statements (%s)" % term)
        exprs_s.append("show_tsql_script (%s) false %s (%s)" % (t2tie.g_env("", "tsql", bool(provider), {}, scalar), base, term))
    hdr = "From SV Require Import Tree.TsqlSplit.\nOpen Scope string_scope."
    mod_l = coq_eval(hdr, exprs_l, shard=20)
    mod_s = coq_eval(hdr, exprs_s, shard=10)
    dist["tsql_file_trees"] = len(kept)
    for (sql, md), il, ml, isc, ms in zip(kept, impl_l, mod_l, impl_s, mod_s):
        ck.count()
        ck.nontriv(("tsql-tree", sql))
        if il != ml:
            disagreements.append({"suite": "T2-tsql-statement-list", "script": sql, "impl": il[:1500], "model": ml[:1500]})
        elif isc != ms and not isc.startswith("ERR:NetworkX"):
            disagreements.append({"suite": "T2-tsql-script", "script": sql, "metadata": md, "impl": isc[:1500], "model": ms[:1500]})

    # ---- scripts of top-level queries (SELECT, UNION, SELECT ... INTO) and DML mixed, under dialects that have SELECT INTO ----
    q_pool = ["select a from t1", "select b into t3 from t2", "select c, d into t4 from t3 join t1 on 1 = 1", "insert into t5 select * from t4",
              "select a from t1 union all select b from t2", "select x.k from (select k from t6) x", "select * from t7",
              "select e into t8 from (select e from t9) y", "create table t10 as select a from t1", "update t3 set b = 1"]
    dist["query_scripts"] = 0
    for dlc in ("tsql", "postgres"):
        for i in range(40 if quick else 400):
            stmts = [r.choice(q_pool) for _ in range(r.randint(2, 5))]
            script = r.choice([";\n", "; ", ";\n-- c;\n"]).join(stmts)
            ck.count()
            dist["query_scripts"] += 1
            try:
                lr = LineageRunner(script, dialect=dlc)
                lr._eval()
                graph = implgraph.s_graph(lr._sql_holder.graph, canon=True)
                holders = []
                for st in stmts:
                    one = LineageRunner(st, dialect=dlc)
                    one._eval()
                    holders += one._stmt_holders
                b = implgraph.s_graph(SQLLineageHolder.of(DummyMetaDataProvider(), *holders).graph, canon=True)
            except Exception as e:
                spec_failures.append({"suite": "query-scripts", "dialect": dlc, "script": script, "impl": "ERR:" + type(e).__name__, "spec": "analysable"})
                continue
            ck.nontriv((dlc, script))
            if graph != b:
                spec_failures.append({"suite": "query-scripts-combination", "dialect": dlc, "script": script, "script_graph": graph[:1500], "combination_graph": b[:1500],
                                      "spec": "script lineage equals the combination of each statement's lineage analysed on its own"})

    # ---- T4: model of the statement loop on the parser's trees ----------------------------------------
    recs = gen_scripts.gen_records(r, 80 if quick else 800) + gen_scripts.rename_scripts(r, None if quick else 100)
    for x in t2tie.run_scripts(recs):
        ck.count()
        if "skip" in x or x["stats"].get("multi_rename"):
            continue
        if x["impl"] != x.get("model"):
            disagreements.append({"suite": "T4-script-model", "sql": x["rec"]["sql"], "metadata": x["rec"].get("metadata"),
                                  "impl": x["impl"][:1500], "model": x.get("model", "")[:1500]})
    ck.notes["input_distribution"] = dist
    ck.conclude(spec_failures, disagreements, proofs_ok,
                "correspondence T1/T4 between Split/Tokens.v, Tree/Script.v (theorems c05_*) and sqllineage/utils/helpers.py, runner.py",
                "statement lists and per-statement combination were evaluated on every script of this run; no failing input")
    return ck.finish(rule="token sequences of length 1-14 over 9 token classes (code incl. literals containing ';', ';', parentheses, blanks, newlines, "
                          "line/block comments containing ';', END) checked against sqlparse's lexer; scripts of 1-5 generated statements x 9 separator "
                          "variants x leading/trailing layout; T-SQL scripts without semicolons incl. repeated statements; non-trivial = text split "
                          "into >=2 pieces / distinct script")


if __name__ == "__main__":
    raise SystemExit(main())
