"""C13 - metadata only refines column attribution.

Proof obligations: coq/theories/Props/C13.v.  S (on the implementation): table-level lineage is the same
with and without metadata; a provider that does not know the statement's tables changes nothing; SELECT *
over a known table expands to exactly its columns; an unqualified column in a multi-relation scope goes to
exactly the in-scope tables whose metadata lists it; a known target names the positions of an INSERT without
column list.  Tie T2/T4 with metadata (tree model with provider view) on generated statements and scripts."""
from __future__ import annotations

import itertools

import astgen
import gen_scripts
import sqltie
import t2tie
from common import Check, load_known, rng, tier

TB = ["s1.t1", "s1.t2", "s2.t3"]


def scenarios(r, upper):
    """(record, expected pairs or None, clause)"""
    out = []
    U = (lambda c: c.upper()) if upper else (lambda c: c)
    for cols in (["ca", "cb"], ["ca"], ["cb", "cc", "cd"]):
        md = {"s1.t1": [U(c) for c in cols], "zz.other": ["q"]}
        exp = sorted("s1.t1.%s>s3.out1.%s" % (c, c) for c in cols)
        for sql in ("insert into s3.out1 select * from s1.t1", "insert into s3.out1 select p.* from s1.t1 p",
                    "create table s3.out1 as select * from s1.t1", "insert into s3.out1 select * from (select * from s1.t1) d",
                    "insert into s3.out1 (select * from s1.t1)"):
            out.append(({"sql": sql, "dialect": "ansi", "metadata": md, "config": {}}, exp, "star"))
    # unqualified column, two relations in scope: who lists it?
    for k1, k2 in itertools.product(("lists", "lacks", "unknown"), repeat=2):
        md = {"zz.other": ["q"]}
        if k1 != "unknown":
            md["s1.t1"] = [U("cx"), U("ca")] if k1 == "lists" else [U("ca")]
        if k2 != "unknown":
            md["s1.t2"] = [U("cx"), U("cb")] if k2 == "lists" else [U("cb")]
        owners = [t for t, k in (("s1.t1", k1), ("s1.t2", k2)) if k == "lists"]
        if owners:
            exp = sorted("%s.cx>s3.out1.cx" % t for t in owners)
        else:
            exp = ["cx{s1.t1,s1.t2}>s3.out1.cx"]
        for sql in ("insert into s3.out1 select cx from s1.t1 p join s1.t2 q on p.ca = q.cb",
                    "insert into s3.out1 select cx from s1.t1, s1.t2"):
            out.append(({"sql": sql, "dialect": "ansi", "metadata": md, "config": {}}, exp, "unqualified:%s/%s" % (k1, k2)))
    # known target names the positions of an INSERT without column list
    # (a target whose known column count differs from the select list is invalid SQL: the property prescribes nothing)
    for tcols, sel in ((["p", "q"], "ca, cb"), (["p"], "ca"), (["p", "q", "r"], "ca, cb, cc")):
        md = {"s3.out1": [U(c) for c in tcols]}
        exp = ["s1.t1.%s>s3.out1.%s" % (c.strip(), t) for c, t in zip(sel.split(","), tcols)]
        for form in ("insert into s3.out1 select %s from s1.t1", "insert into s3.out1 (select %s from s1.t1)",
                     "insert into s3.out1 with c as (select ca, cb, cc from s1.t1) select %s from c",
                     "insert into s3.out1 (with c as (select ca, cb, cc from s1.t1) select %s from c)"):
            out.append(({"sql": form % sel, "dialect": "ansi", "metadata": md, "config": {}}, sorted(exp), "target-positions"))
    # an explicit column list always wins - here: the list is a re-ordering of exactly the target's known columns (lists naming
    # other columns or a subset are the recorded class K-C13-1 and are replayed separately)
    for tcols, lst, sel in ((["p", "q", "r"], ["r", "p", "q"], "ca, cb, cc"), (["p", "q"], ["q", "p"], "ca, cb"),
                            (["p", "q", "r"], ["q", "r", "p"], "ca, cb, cc"), (["p", "q", "r"], ["p", "q", "r"], "cc, cb, ca")):
        md = {"s3.out1": [U(c) for c in tcols], "s1.t1": [U("ca"), U("cb"), U("cc")]}
        exp = ["s1.t1.%s>s3.out1.%s" % (c.strip(), t) for c, t in zip(sel.split(","), lst)]
        for form in ("insert into s3.out1 (%s) select %s from s1.t1", "insert into s3.out1 (%s) (select %s from s1.t1)",
                     "insert into s3.out1 (%s) select %s from s1.t1 p"):
            out.append(({"sql": form % (", ".join(lst), sel), "dialect": "ansi", "metadata": md, "config": {}}, sorted(exp), "explicit-list-reordered"))
            out.append(({"sql": form % (", ".join(lst), sel), "dialect": "ansi", "metadata": {"s3.out1": md["s3.out1"]}, "config": {}}, sorted(exp), "explicit-list-reordered"))
    return out


def main() -> int:
    ck = Check("C13")
    ck.assumptions += ["DummyMetaDataProvider in the quick tier; the SQLAlchemy provider (in-memory sqlite) is compared with it in the thorough tier",
                       "the scenarios' expectations are written down from the property text for templated statements"]
    ck.trusted += ["tree model Tree/*.v with a provider view, Provider/Session.v, tied by suite T2/T4 with metadata (this run)", "harness/c13.py"]
    proofs_ok = ck.proofs()
    quick = tier() == "quick"
    r = rng("c13")
    spec_failures, disagreements, known_hits = [], [], {}
    dist = {"generated": 0, "assignments": 0, "scenarios": 0, "clauses": {}}
    # ---- generated statements x metadata assignments ------------------------------------------------
    n = 70 if quick else 1200
    stmts = astgen.gen_batch(r, n, (0, 1, 2), shapes=30 if quick else 300)
    plain = t2tie.summaries(sqltie.records(stmts))
    tables = ["s1.t1", "s1.t2", "s2.t3", "s2.t1", "db1.s4.t6", "s3.out1"]
    recs, meta = [], []
    for i, s in enumerate(stmts):
        for a in range(3 if quick else 6):
            md = {"zz.unrelated": ["q1", "q2"]}
            for t in tables:
                c = r.random()
                if c < 0.45:
                    md[t] = r.sample(astgen.COLS + ["cm"], r.choice([1, 2, 3]))
            recs.append({"sql": astgen.to_sql(s), "dialect": "ansi", "metadata": md, "config": {}, "silent": False})
            meta.append((i, md))
        recs.append({"sql": astgen.to_sql(s), "dialect": "ansi", "metadata": {"zz.unrelated": ["q1"], "zz.t9": ["ck"]}, "config": {}, "silent": False})
        meta.append((i, None))
    got = t2tie.summaries(recs)
    for (i, md), rec, g in zip(meta, recs, got):
        ck.count()
        dist["assignments"] += 1
        b = plain[i]
        if b.startswith("ERR") and g.startswith("ERR"):
            continue
        ck.nontriv((rec["sql"], repr(sorted((rec["metadata"] or {}).items()))))
        if sqltie.tables_part(g) != sqltie.tables_part(b):
            spec_failures.append({"suite": "tables-unchanged", "sql": rec["sql"], "metadata": rec["metadata"], "with_metadata": g, "without": b,
                                  "spec": "supplying table metadata never changes table-level lineage"})
        elif md is None and g != b:
            spec_failures.append({"suite": "unknown-tables-same", "sql": rec["sql"], "metadata": rec["metadata"], "with_metadata": g, "without": b,
                                  "spec": "tables the provider does not know get the same answer as without metadata"})
    dist["generated"] = n
    # ---- S_md: the implementation against the executable specification WITH a catalog (Ast/SpecMeta.v), evaluated in Coq
    # together with the guards of the theorems (c13_columns_exact_with_metadata_plain_items, c13_star_expands_to_catalog_columns):
    # single-SELECT statements over schema-qualified base tables x catalogs over their tables (overlap none / partial / full)
    import c04 as _c04
    from common import coq_eval, coq_string
    sm = []
    for ss in _c04.core_scripts(r, 260 if quick else 4000):
        st = ss[0]
        if st[0] == "query" or astgen.stmt_query(st)[0] != "select":
            continue
        # schema-qualify every table (catalog keys are printed names)
        def qual(t):
            return t if t[0] else ("s", t[1])
        q = astgen.stmt_query(st)
        rels = [("table", qual(rr[1]), rr[2]) for rr in q[2]]
        q2 = ("select", q[1], rels, q[3], q[4])
        st2 = (st[0], qual(st[1])) + ((st[2], q2) if st[0] == "insert" else (q2,))
        tabs = sorted({"%s.%s" % rr[1] for rr in rels} | {"%s.%s" % qual(st[1])})
        md = {"zz.unrelated": ["q1"]}
        pool = ["x", "y", "z", "k", "m"]
        for t in tabs:
            if r.random() < 0.55:
                md[t] = r.sample(pool, r.choice([1, 2, 3]))
        sm.append((st2, md))
    g_md = lambda md: "[%s]" % "; ".join("(%s, [%s])" % (coq_string(k), "; ".join(coq_string(c) for c in v)) for k, v in sorted(md.items()))
    exprs = []
    for st2, md in sm:
        gs, gm = astgen.g_stmt(st2), g_md(md)
        exprs.append("(if stmt_ok %s && sshape %s && colshape %s && sel_tables_syntactic %s && md_ok \"\" %s %s then (if items_plain_s %s then \"P:\" else \"S:\") else \"out:\") ++ join \";\" (spec_pairs_md \"\" %s %s)"
                     % (gs, gs, gs, gs, gm, gs, gs, gm, gs))
    sp_md = coq_eval("From SV Require Import Ast.Spec Ast.SpecMeta Tree.LemmaA Tree.LemmaAProofs Tree.LemmaB Tree.LemmaBProofs Tree.LemmaBMeta.\nOpen Scope string_scope.", exprs, shard=150)
    im_md = t2tie.summaries([{"sql": astgen.to_sql(st2), "dialect": "ansi", "metadata": md, "config": {}} for st2, md in sm])
    dist["spec_md"] = {"statements": len(sm), "inside_md_ok": 0, "proved_fragment_plain_items": 0, "differs_from_no_metadata": 0}
    nomd = t2tie.summaries([{"sql": astgen.to_sql(st2), "dialect": "ansi", "metadata": None, "config": {}} for st2, md in sm])
    for (st2, md), sp, im, nm in zip(sm, sp_md, im_md, nomd):
        ck.count()
        if sp.startswith("out:"):
            continue
        dist["spec_md"]["inside_md_ok"] += 1
        dist["spec_md"]["proved_fragment_plain_items"] += sp.startswith("P:")
        dist["spec_md"]["differs_from_no_metadata"] += im != nm
        exp = sp[2:]
        got = im.split("#", 1)[1] if "#" in im else im
        ck.nontriv(("spec-md", astgen.to_sql(st2), repr(sorted(md.items()))))
        if got != exp:
            spec_failures.append({"suite": "S_md-specification-with-catalog", "sql": astgen.to_sql(st2), "metadata": md, "impl_pairs": got, "spec_pairs_md": exp,
                                  "inside_proved_fragment": sp.startswith("P:"),
                                  "spec": "column attribution with metadata: star expansion, listers of an unqualified column, positions of a known target (Ast/SpecMeta.v)"})
    # ---- clause scenarios ----------------------------------------------------------------------------------
    sc = scenarios(r, False) + scenarios(r, True)
    got = t2tie.summaries([x for x, _, _ in sc])
    for (rec, exp, clause), g in zip(sc, got):
        ck.count()
        dist["scenarios"] += 1
        dist["clauses"][clause.split(":")[0]] = dist["clauses"].get(clause.split(":")[0], 0) + 1
        pairs = sorted(p for p in g.split("#", 1)[1].split(";") if p) if "#" in g else [g]
        if pairs != exp:
            spec_failures.append({"suite": "clause-" + clause, "sql": rec["sql"], "metadata": rec["metadata"], "impl_pairs": pairs, "expected_pairs": exp,
                                  "spec": "metadata refines column attribution exactly as the property states"})
    # ---- the same clauses on a provider object that has been used before -------------------------------------
    # what the provider answers is its own catalog, whatever earlier runs with the same object wrote or read
    from sqllineage.runner import LineageRunner
    from sqllineage.core.metadata.dummy import DummyMetaDataProvider
    priming = ["create table s1.t1 as select pa, pb from s9.src;\ninsert into s9.x select * from s1.t1",
               "create table s9.stage as select pa, pb from s1.t1;\ninsert into s9.x select * from s9.stage;\ninsert into s9.y select pa from s9.stage p join s1.t2 q on 1 = 1",
               "insert into s1.t1 select pz from s9.src;\ninsert into s9.x select * from s1.t1;\ninsert into s3.out1 select * from s1.t2"]
    reused_recs = [x for x, _, _ in sc[:: (3 if quick else 1)]] + \
        [{"sql": "insert into s3.out1 select * from s9.stage", "dialect": "ansi", "metadata": {"s1.t1": ["ca"]}, "config": {}},
         {"sql": "insert into s3.out1 select pa from s9.stage p join s1.t1 q on 1 = 1", "dialect": "ansi", "metadata": {"s1.t1": ["ca"]}, "config": {}}]
    fresh = t2tie.summaries(reused_recs)
    for rec, want in zip(reused_recs, fresh):
        prov = DummyMetaDataProvider(dict(rec["metadata"]))
        for ps in priming:
            try:
                LineageRunner(ps, metadata_provider=prov)._eval()
            except Exception:
                pass
        try:
            lr = LineageRunner(rec["sql"], metadata_provider=prov)
            lr._eval()
            got1 = t2tie.summary(lr)
        except Exception as e:
            got1 = "ERR:" + type(e).__name__
        ck.count()
        dist["reused_provider"] = dist.get("reused_provider", 0) + 1
        if got1 != want:
            spec_failures.append({"suite": "reused-provider", "sql": rec["sql"], "metadata": rec["metadata"], "earlier_scripts": priming,
                                  "with_used_provider": got1, "with_fresh_provider": want,
                                  "spec": "known tables expand to exactly their catalog columns and unknown tables get the no-metadata answer, also on a provider object that earlier runs have used"})
    # ---- tie with metadata ---------------------------------------------------------------------------------
    tie_recs = recs[:: (7 if quick else 3)] + [x for x, _, _ in sc] + gen_scripts.gen_records(r, 60 if quick else 600)
    for x in t2tie.run_scripts(tie_recs):
        ck.count()
        if "skip" in x or x.get("stats", {}).get("multi_rename"):
            continue
        if x["impl"] != x.get("model"):
            a, b = x["impl"], x.get("model", "")
            k = next((j for j in range(min(len(a), len(b))) if a[j] != b[j]), min(len(a), len(b)))
            disagreements.append({"suite": "T2-metadata", "sql": x["rec"]["sql"], "metadata": x["rec"].get("metadata"),
                                  "impl": a[max(0, k - 200):k + 400], "model": b[max(0, k - 200):k + 400]})
    # ---- recorded findings ------------------------------------------------------------------------------------
    for f in load_known():
        if f["property"] != "C13" or f["status"] != "known" or "replay" not in f:
            continue
        rp = f["replay"]
        lr = LineageRunner(rp["sql"], metadata_provider=DummyMetaDataProvider(rp["metadata"]))
        lr._eval()
        got1 = t2tie.summary(lr)
        ck.count()
        if got1 == rp["observed"]:
            ck.known(f["id"], f["what"] + " (replayed: %r -> %s)" % (rp["sql"], got1))
        elif got1 != rp["expected"]:
            spec_failures.append({"suite": "known-finding-replay", "finding": f["id"], "sql": rp["sql"], "impl": got1,
                                  "recorded_defect": rp["observed"], "spec": rp["expected"]})
    # ---- both bundled providers, every run: the dict-backed one and SQLAlchemy on in-memory sqlite must answer alike, in
    # particular for tables one of them could find under ANOTHER schema (same bare name in the connection's default schema,
    # schema attached but without the table, schema not attached at all) -------------------------------------------------
    try:
        from sqlalchemy import Column as SAColumn, Integer, MetaData as SAMeta, Table as SATable, text as sa_text
        from sqllineage.core.metadata.sqlalchemy import SQLAlchemyMetaDataProvider
        have_sa = True
    except ImportError as e:        # the repository's own test-suite needs it, so this is not expected
        have_sa = False
        ck.notes["sqlalchemy_provider"] = "not importable: %s" % e
    if have_sa:
        def sa_provider(md, attach=()):
            pv = SQLAlchemyMetaDataProvider("sqlite:///:memory:")
            meta = SAMeta()
            schemas = sorted({k.split(".")[0] for k in md} | set(attach))
            with pv.engine.connect() as conn:
                for sch in schemas:
                    if sch not in ("main", "temp"):
                        conn.execute(sa_text("ATTACH DATABASE ':memory:' AS '%s'" % sch))
            for full, cols in md.items():
                sch, tb = full.split(".")
                SATable(tb, meta, *[SAColumn(c, Integer) for c in cols], schema=sch)
            meta.create_all(bind=pv.engine)
            return pv
        mds = [({"main.orders": ["id", "amount", "status"], "main.users": ["uid", "name"]}, ()),
               ({"main.orders": ["id", "amount", "status"], "main.users": ["uid", "name"], "s1.items": ["iid", "amount"]}, ()),
               ({"main.orders": ["id", "amount"], "s1.orders": ["id", "total"], "main.users": ["uid", "name"]}, ("s2",)),
               ({"s1.orders": ["id", "total"], "s1.users": ["uid", "name"]}, ())]
        tpl = ["insert into main.snap select * from %s.orders",
               "insert into main.snap select amount, name from main.users join %s.orders on 1 = 1",
               "insert into main.snap select total, name, uid from %s.users u, %s.orders o",
               "insert into %s.orders select uid, name from main.users",
               "create table main.o2 as select * from %s.orders o join main.users u on o.id = u.uid",
               "insert into main.snap select id from %s.orders where id in (select uid from main.users)",
               "create view main.v as select o.*, name from %s.orders o cross join main.users"]
        dist["both_providers"] = 0
        for md, attach in mds:
            for t in tpl:
                for X in ("main", "s1", "s2", "s9"):
                    sql = t.replace("%s", X)
                    outs = []
                    for pv in (DummyMetaDataProvider(dict(md)), sa_provider(md, attach)):
                        try:
                            lr = LineageRunner(sql, metadata_provider=pv)
                            lr._eval()
                            outs.append(t2tie.summary(lr))
                        except Exception as e:      # noqa
                            outs.append("ERR:" + type(e).__name__)
                    ck.count()
                    dist["both_providers"] += 1
                    ck.nontriv(("both-providers", sql, str(sorted(md))))
                    if outs[0] != outs[1]:
                        spec_failures.append({"suite": "both-providers", "sql": sql, "metadata": md, "attached_empty_schemas": list(attach),
                                              "dict_backed_provider": outs[0], "sqlalchemy_sqlite_provider": outs[1],
                                              "spec": "both bundled providers give the same answer; tables the provider does not know get "
                                                      "the same answer as without metadata"})
    if not quick:
        try:
            import sys
            sys.path.insert(0, __import__("os").environ.get("VERIF_REPO", "/repo"))
            from tests.helpers import generate_metadata_providers
            schemas = {"main.t1": ["ca", "cb"], "main.t2": ["cx", "cb"]}
            provs = generate_metadata_providers(schemas)
            for sql in ("insert into main.o select * from main.t1", "insert into main.o select cx from main.t1 p join main.t2 q on p.ca = q.cb"):
                outs = []
                for p in provs:
                    lr = LineageRunner(sql, metadata_provider=p)
                    lr._eval()
                    outs.append(t2tie.summary(lr))
                ck.count()
                if len(set(outs)) != 1:
                    spec_failures.append({"suite": "both-providers", "sql": sql, "results": outs, "spec": "both bundled providers give the same answer"})
        except Exception as e:
            ck.notes["sqlalchemy_provider"] = "not exercised: " + type(e).__name__
    ck.sample({"scenario": sc[0][0], "expected_pairs": sc[0][1]})
    ck.notes["input_distribution"] = dist
    ck.conclude(spec_failures, disagreements, proofs_ok,
                "correspondence T2/T4 with metadata between Tree/*.v, Provider/Session.v and sqllineage (extractors, holders, metadata_provider)",
                "every clause of the property was evaluated on the implementation for every generated (statement, assignment); no failing input")
    return ck.finish(rule="%d generated statements x 3-6 random assignments of (known with columns | unknown) to 6 tables + one provider that knows none of them; "
                          "clause scenarios: SELECT * (4 statement shapes x 3 column sets), unqualified column (3x3 lists/lacks/unknown x join style), target "
                          "positions (3 list lengths), each with lower- and upper-case metadata names, and again on provider objects used by earlier runs; non-trivial = distinct (SQL, assignment)" % n)


if __name__ == "__main__":
    raise SystemExit(main())
