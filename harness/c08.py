"""C08 - lineage is invariant under renaming of statement-local names.

Proof obligations: coq/theories/Props/C08.v (alpha-equivalence of the specification).
Metamorphic check on the implementation (S): every generated statement is printed with its table
aliases, derived-table aliases and CTE names renamed injectively from adversarial pools (fresh names,
mixed case, quoted names with upper-case letters, names of tables that do not occur in the statement,
keywords the dialect allows), with/without the optional AS; source/target tables and end-to-end column
pairs must not change.  The unrenamed statement is also compared with the specification (I = S)."""
from __future__ import annotations

import astgen
import sqltie
import t2tie
from common import Check, load_known, rng, tier

POOLS = {
    "fresh": lambda i, d: "zz%d" % i,
    "mixed-case": lambda i, d: "MyName%d" % i,
    "quoted-upper": lambda i, d: {"ansi": '"Stage%d"', "mysql": "`Stage%d`", "tsql": "[Stage%d]", "postgres": '"Stage%d"'}.get(d, '"Stage%d"') % i,
    "other-table-name": lambda i, d: ["orders", "customers", "lineitem", "nation", "region", "part"][i % 6] + str(i // 6 or ""),
    "keyword-like": lambda i, d: ["data", "value", "source", "target", "name", "type"][i % 6] + str(i // 6 or ""),
    "upper": lambda i, d: "ALIAS%d" % i,
}


def main() -> int:
    ck = Check("C08")
    ck.assumptions += ["renamings respect the admissibility conditions of Props/C08.v (new names are fresh for the statement: no clash with its tables, printed table names, qualifiers or other local names)",
                       "expressions are aliased by the generator; names of intermediate sub-query columns are not part of the compared result"]
    ck.trusted += ["specification Ast/Spec.v + Ast/Rename.v (alpha-equivalence proved), tree model tied by suite T2/T4 (this run)", "harness/c08.py, harness/astgen.py"]
    proofs_ok = ck.proofs()
    quick = tier() == "quick"
    r = rng("c08")
    spec_failures, disagreements = [], []
    dist = {"statements": 0, "with_locals": 0, "pools": {}, "per_dialect": {}, "rejected_by_parser": 0}
    known_c08 = {}
    n = 70 if quick else 2000
    stmts = astgen.gen_batch(r, n, (1, 2, 2), shapes=20 if quick else 300)
    stmts = [s for s in stmts if astgen.local_names(s)]
    dist["with_locals"] = len(stmts)
    spec = sqltie.spec_strings(stmts)
    dialects = ["ansi", "mysql", "tsql"] if quick else ["ansi", "mysql", "tsql", "postgres", "sparksql", "bigquery"]
    for d in dialects:
        base_recs = sqltie.records(stmts, dialect=d)
        base = t2tie.summaries(base_recs)
        if d == "ansi":
            for s, rec, b, sp in zip(stmts, base_recs, base, spec):
                ck.count()
                if b != sp and not b.startswith("ERR:InvalidSyntax"):
                    spec_failures.append({"suite": "I-vs-S", "dialect": d, "sql": rec["sql"], "impl": b, "spec": sp})
        batch, meta = [], []
        for pool, f in POOLS.items():
            for use_as in (True, False):
                for si, s in enumerate(stmts):
                    names = sorted(astgen.local_names(s))
                    order = list(range(len(names)))
                    r.shuffle(order)
                    ren = {nm: f(order[i], d) for i, nm in enumerate(names)}
                    batch.append({"sql": astgen.to_sql(s, astgen.Opts(rename=ren, use_as=use_as)), "dialect": d, "metadata": None, "config": {}})
                    meta.append((pool, use_as, si))
        got = t2tie.summaries(batch)
        for (pool, use_as, si), rec, g in zip(meta, batch, got):
            s, b = stmts[si], base[si]
            ck.count()
            dist["pools"][pool] = dist["pools"].get(pool, 0) + 1
            if b.startswith("ERR:InvalidSyntax") or g.startswith("ERR:InvalidSyntax"):
                dist["rejected_by_parser"] += 1
                continue
            dist["per_dialect"][d] = dist["per_dialect"].get(d, 0) + 1
            ck.nontriv((d, pool, use_as, rec["sql"]))
            if b != g:
                spec_failures.append({"suite": "metamorphic-rename", "dialect": d, "pool": pool, "as_keyword": use_as,
                                      "original_sql": astgen.to_sql(s), "renamed_sql": rec["sql"], "original_result": b, "renamed_result": g,
                                      "spec": "renaming statement-local names (or adding/removing AS) leaves tables and end-to-end column pairs unchanged"})
        # scope-aware renaming: an alias local to a derived table takes the bare name of a table of the enclosing query
        if d == "ansi" or not quick:
            trip = [astgen.gen_scoped(r) for _ in range(60 if quick else 800)]
            sspec = sqltie.spec_strings([t[0] for t in trip]) if d == "ansi" else None
            sbase = t2tie.summaries(sqltie.records([t[0] for t in trip], dialect=d))
            sren = t2tie.summaries([{"sql": astgen.to_sql(s, astgen.Opts(rename={a: nn})), "dialect": d, "metadata": None, "config": {}} for s, a, nn in trip])
            for k, ((s, a, nn), b, g) in enumerate(zip(trip, sbase, sren)):
                ck.count()
                dist["pools"]["enclosing-table-name"] = dist["pools"].get("enclosing-table-name", 0) + 1
                if b.startswith("ERR:InvalidSyntax") or g.startswith("ERR:InvalidSyntax"):
                    dist["rejected_by_parser"] += 1
                    continue
                ck.nontriv((d, "enclosing-table-name", astgen.to_sql(s)))
                if sspec is not None and b != sspec[k]:
                    spec_failures.append({"suite": "I-vs-S", "dialect": d, "sql": astgen.to_sql(s), "impl": b, "spec": sspec[k]})
                elif b != g:
                    spec_failures.append({"suite": "metamorphic-rename", "dialect": d, "pool": "enclosing-table-name", "renamed": {a: nn},
                                          "original_sql": astgen.to_sql(s), "renamed_sql": astgen.to_sql(s, astgen.Opts(rename={a: nn})),
                                          "original_result": b, "renamed_result": g,
                                          "spec": "renaming an alias that is local to a derived table, to a name that is not visible in that derived table, changes nothing"})
        # one binding renamed: two different derived tables in sibling scopes share an alias vs. carry distinct ones
        if d == "ansi" or not quick:
            pairs = [astgen.gen_same_alias_pair(r) for _ in range(40 if quick else 600)]
            pspec = sqltie.spec_strings([b for _, b in pairs]) if d == "ansi" else None
            same = t2tie.summaries(sqltie.records([a for a, _ in pairs], dialect=d))
            dist_ = t2tie.summaries(sqltie.records([b for _, b in pairs], dialect=d))
            for k, ((sa, sb), x, y) in enumerate(zip(pairs, same, dist_)):
                ck.count()
                dist["pools"]["one-binding"] = dist["pools"].get("one-binding", 0) + 1
                if x.startswith("ERR:InvalidSyntax") or y.startswith("ERR:InvalidSyntax"):
                    dist["rejected_by_parser"] += 1
                    continue
                ck.nontriv((d, "one-binding", astgen.to_sql(sa)))
                if pspec is not None and y != pspec[k]:
                    spec_failures.append({"suite": "I-vs-S", "dialect": d, "sql": astgen.to_sql(sb), "impl": y, "spec": pspec[k]})
                elif x != y:
                    spec_failures.append({"suite": "metamorphic-rename", "dialect": d, "pool": "one-binding",
                                          "original_sql": astgen.to_sql(sa), "renamed_sql": astgen.to_sql(sb), "original_result": x, "renamed_result": y,
                                          "spec": "two derived tables in sibling scopes may share an alias: renaming one of them to a fresh name changes nothing"})
        # references with more than two parts whose HEAD is a statement-local name (a field of a structured column reached
        # through an alias: alias.column.field, or alias.column.field.sub): templates, the local name is {A}
        if d in ("ansi", "bigquery", "sparksql") or not quick:
            templ = [
                "insert into tgt select {A}.payload.id, {A}.ts from events {AS}{A}",
                "insert into tgt select {A}.payload.id, u.name from events {AS}{A} join users u on {A}.uid = u.id",
                "insert into tgt select {A}.payload.id from (select payload from events) {AS}{A}",
                "insert into tgt with {A} as (select payload from events) select {A}.payload.id from {A}",
                "insert into s.tgt select {A}.payload.geo.lat as lat, {A}.k from s.events {AS}{A}",
                "create table tgt as select {A}.payload.id as pid, {B}.info.tag as tag from events {AS}{A}, users {AS}{B}",
                "insert into tgt select {A}.payload.id from events {AS}{A} where {A}.k in (select k from users)",
            ]
            names = [("e", "u2"), ("ev", "x1"), ("sub_q", "w"), ("staged", "z9"), ("orders", "clients")]
            cases = []
            for t in templ:
                for asw in ("", "as "):
                    for a, b2 in names:
                        cases.append((t, t.replace("{AS}", asw).replace("{A}", a).replace("{B}", b2)))
            got3 = t2tie.summaries([{"sql": c, "dialect": d, "metadata": None, "config": {}} for _, c in cases])
            first = {}
            for (t, c), g in zip(cases, got3):
                ck.count()
                dist["pools"]["multi-part-reference-head"] = dist["pools"].get("multi-part-reference-head", 0) + 1
                if g.startswith("ERR:InvalidSyntax"):
                    dist["rejected_by_parser"] += 1
                    continue
                ck.nontriv((d, "multi-part-reference-head", c))
                if t not in first:
                    first[t] = (c, g)
                elif first[t][1] != g:
                    spec_failures.append({"suite": "metamorphic-rename", "dialect": d, "pool": "multi-part-reference-head",
                                          "original_sql": first[t][0], "renamed_sql": c, "original_result": first[t][1], "renamed_result": g,
                                          "spec": "renaming statement-local names (or adding/removing AS) leaves tables and end-to-end column pairs unchanged"})
        # several qualified stars over relations that expose a column of the same name: which relation supplies a column of
        # the target must not depend on how the local names are spelled (their lexicographic order in particular)
        templ_s = [
            "insert into tgt select {A}.*, {B}.* from (select id, a from t1) {AS}{A} join (select id, b from t2) {AS}{B} on {A}.id = {B}.id",
            "create table tgt as select {B}.*, {A}.* from (select id, a from t1) {AS}{A}, (select id, b from t2) {AS}{B}",
            "insert into tgt select {A}.*, {B}.*, {C}.k from (select id, a from t1) {AS}{A} join (select a, id from t2) {AS}{B} on 1 = 1 join t3 {AS}{C} on 1 = 1",
            "insert into tgt select {B}.*, {A}.* from t1 {AS}{A} join (select id from t2) {AS}{B} on 1 = 1",
            # (stars over CTEs are not expanded - recorded as K-C02-9 - so the CTE's name is the reported source: not generated here)
            "insert into tgt select {A}.id, {B}.* from (select id from t1) {AS}{A} join (select id, b from t2) {AS}{B} on 1 = 1",
        ]
        names_s = [("c", "o", "z"), ("zeta", "o", "a1"), ("o", "c", "b"), ("stage", "detail", "x"), ("m2", "m10", "m1"), ("b", "a", "c")]
        cases_s = []
        for t in templ_s:
            for asw in ("", "as "):
                for a, b2, c2 in names_s:
                    cases_s.append((t, t.replace("{AS}", asw).replace("{A}", a).replace("{B}", b2).replace("{C}", c2)))
        got4 = t2tie.summaries([{"sql": c, "dialect": d, "metadata": None, "config": {}} for _, c in cases_s])
        first = {}
        for (t, c), g in zip(cases_s, got4):
            ck.count()
            dist["pools"]["several-stars"] = dist["pools"].get("several-stars", 0) + 1
            if g.startswith("ERR:InvalidSyntax"):
                dist["rejected_by_parser"] += 1
                continue
            ck.nontriv((d, "several-stars", c))
            if t not in first:
                first[t] = (c, g)
            elif first[t][1] != g:
                spec_failures.append({"suite": "metamorphic-rename", "dialect": d, "pool": "several-stars",
                                      "original_sql": first[t][0], "renamed_sql": c, "original_result": first[t][1], "renamed_result": g,
                                      "spec": "renaming statement-local names (or adding/removing AS) leaves tables and end-to-end column pairs unchanged"})
        # a table alias with a derived column list: tab [AS] a (c1, c2) - the alias names the table whatever it is called and
        # whether or not AS is written.  (Repaired defect F-C08-1: without AS the column list used to be taken for the alias.)
        if d in ("ansi", "postgres", "snowflake", "sparksql") or not quick:
            templ_c = [("insert into tgt select {A}.c1 from tab {AS}{A} (c1, c2)", "R=<default>.tab;W=<default>.tgt#<default>.tab.c1><default>.tgt.c1"),
                       ("insert into tgt select {A}.c1, u.k from s1.tab {AS}{A} (c1, c2) join u on 1 = 1",
                        "R=<default>.u,s1.tab;W=<default>.tgt#<default>.u.k><default>.tgt.k;s1.tab.c1><default>.tgt.c1"),
                       ("insert into tgt with c as (select x from t1) select {A}.c1 from c {AS}{A} (c1)", None)]
            cases_c = [(t, w, asw, a, t.replace("{AS}", asw).replace("{A}", a)) for t, w in templ_c for asw in ("as ", "") for a in ("a", "zz", "tab2", "b1")]
            got5 = t2tie.summaries([{"sql": c[4], "dialect": d, "metadata": None, "config": {}} for c in cases_c])
            first_c = {}
            for (t, want, asw, a, c), g in zip(cases_c, got5):
                ck.count()
                dist["pools"]["alias-with-column-list"] = dist["pools"].get("alias-with-column-list", 0) + 1
                if g.startswith("ERR:InvalidSyntax"):
                    dist["rejected_by_parser"] += 1
                    continue
                ck.nontriv((d, "alias-with-column-list", c))
                case = {"suite": "metamorphic-rename", "dialect": d, "pool": "alias-with-column-list", "sql": c, "result": g}
                # (before fix 62bbb18 the form without AS attributed a.c1 to a table called like the alias: F-C08-1)
                if want is not None and g != want:
                    spec_failures.append(dict(case, spec=want, detail="the alias names the table, with or without AS: a column qualified by it is a column of that table"))
                    continue
                key = t        # the same result for every alias name and with or without AS
                if key not in first_c:
                    first_c[key] = (c, g)
                elif first_c[key][1] != g:
                    spec_failures.append(dict(case, original_sql=first_c[key][0], original_result=first_c[key][1],
                                              spec="renaming statement-local names leaves tables and end-to-end column pairs unchanged"))
        # tie on a renamed variant
        recs = []
        for s in stmts[: (40 if quick else 300)]:
            names = sorted(astgen.local_names(s))
            recs.append({"sql": astgen.to_sql(s, astgen.Opts(rename={nm: POOLS["quoted-upper"](i, d) for i, nm in enumerate(names)})),
                         "dialect": d, "metadata": None, "config": {}, "silent": False})
        for x in t2tie.run_scripts(recs):
            ck.count()
            if "skip" in x:
                continue
            if x["impl"] != x.get("model"):
                disagreements.append({"suite": "T2-renamed", "dialect": d, "sql": x["rec"]["sql"], "impl": x["impl"][:1500], "model": x.get("model", "")[:1500]})
        dist["statements"] += len(stmts)
    ck.sample({"original": astgen.to_sql(stmts[0]),
               "renamed": astgen.to_sql(stmts[0], astgen.Opts(rename={nm: POOLS["quoted-upper"](i, "ansi") for i, nm in enumerate(sorted(astgen.local_names(stmts[0])))}))})
    kn = {f["id"]: f for f in load_known() if f["property"] == "C08" and f["status"] == "known"}
    for kid, case in known_c08.items():
        if kid in kn:
            ck.known(kid, kn[kid]["what"] + " (e.g. %r -> %s)" % (case["sql"], case["result"][:120]))
        else:
            spec_failures.append(dict(case, spec="class %s is not recorded" % kid))
    ck.notes["input_distribution"] = dist
    ck.conclude(spec_failures, disagreements, proofs_ok,
                "correspondence T2 (renamed text) between Tree/*.v and sqllineage/core/parser/sqlfluff",
                "every renaming of every generated statement was compared with the original on the implementation; no failing input")
    return ck.finish(rule="%d generated statements with local names x 6 renaming pools (fresh, mixed case, quoted with upper case, names of other tables, "
                          "keyword-like, upper case), plus scoped statements whose derived-table-local alias takes the bare name of a table of the enclosing query, plus statements in which two sibling-scope derived tables share an alias vs. carry distinct ones, x with/without AS x dialects %s, random injective assignment per statement; non-trivial = distinct "
                          "(dialect, pool, AS, renamed SQL)" % (len(stmts), ",".join(dialects)))


if __name__ == "__main__":
    raise SystemExit(main())
