"""UPDATE / MERGE / SELECT INTO (Ast/SpecDml.v, Tree/RenderDml.v, Tree/LemmaADml.v): generated statements are
(1) rendered by [show_render_dml] inside Coq and compared node by node with the real parser's tree of the printed text
    (what connects Lemma A for these statement kinds - about rendered trees - to the code path), and
(2) analysed by the implementation and compared with the specification [dml_reads]/[dml_writes] evaluated in Coq
    (inside the theorem's guard [dml_ok]); UPDATE statements with a WHERE-IN sub-query are the recorded class K-C01-7:
    there the implementation must give either the recorded defective answer ([upd_impl_reads], proved to be what the
    model computes: lemma_A_update_impl) or the specified one.
UPDATE and MERGE are parsed with the ansi dialect, SELECT ... INTO with postgres (ansi has no SELECT INTO).
Generator and printers were written by the proof sub-agent together with the renderer (validated layout first)."""
import random
import warnings

from common import coq_eval

warnings.filterwarnings("ignore")
R = random.Random(0)

NAMES = ["t", "u", "v", "w", "tab1", "x_2", "orders", "k"]
COLS = ["a", "b", "c", "k", "col_1", "amount"]
SCHEMAS = ["s", "db.sch", "main"]


def cs(s):
    return '"' + s + '"'


def copt(x, f=cs):
    return "None" if x is None else "(Some %s)" % f(x)


def gen_tref():
    return (R.choice([None, None, R.choice(SCHEMAS)]), R.choice(NAMES))


def g_tref(t):
    return "(%s, %s)" % (copt(t[0]), cs(t[1]))


def p_tref(t):
    return (t[0] + "." if t[0] else "") + t[1]


def gen_item():
    if R.random() < 0.25:
        return ("star", R.choice([None, None, R.choice(NAMES)]))
    return ("col", R.choice([None, None, R.choice(NAMES)]), R.choice(COLS), R.choice([None, None, R.choice(COLS)]))


def g_item(i):
    if i[0] == "star":
        return "IStar %s" % copt(i[1])
    return "IExpr (EColRef %s %s) %s" % (copt(i[1]), cs(i[2]), copt(i[3]))


def p_item(i):
    if i[0] == "star":
        return (i[1] + "." if i[1] else "") + "*"
    return (i[1] + "." if i[1] else "") + i[2] + (" as " + i[3] if i[3] else "")


def gen_rel(depth):
    if depth > 0 and R.random() < 0.35:
        return ("derived", gen_query(depth - 1), R.choice(NAMES))
    return ("table", gen_tref(), R.choice([None, None, R.choice(NAMES)]))


def g_rel(x):
    if x[0] == "derived":
        return "RDerived (%s) %s" % (g_query(x[1]), cs(x[2]))
    return "RTable %s %s" % (g_tref(x[1]), copt(x[2]))


def p_rel(x):
    if x[0] == "derived":
        return "(%s) as %s" % (p_query(x[1]), x[2])
    return p_tref(x[1]) + (" as " + x[2] if x[2] else "")


def gen_select(depth, allow_comma=True):
    items = [gen_item() for _ in range(R.choice([1, 1, 2, 3]))]
    frm = [gen_rel(depth) for _ in range(R.choice([1, 1, 2, 3]))]
    cj = allow_comma and R.random() < 0.5
    # a comma join directly inside IN (...) is parsed by sqlfluff as an IN-list (known finding K-C01-4 about r_query): not generated
    wh = (R.choice(COLS), gen_query(depth - 1, False)) if depth > 0 and R.random() < 0.35 else None
    return ("select", items, frm, cj, wh)


def gen_query(depth, allow_comma=True):
    if depth > 0 and R.random() < 0.2:
        return ("union", gen_select(depth - 1, allow_comma), gen_select(depth - 1, allow_comma))
    return gen_select(depth, allow_comma)


def g_list(l):
    return "[" + "; ".join(l) + "]"


def g_wh(wh):
    return "None" if wh is None else "(Some (%s, %s))" % (cs(wh[0]), g_query(wh[1]))


def g_query(q):
    if q[0] == "union":
        return "QUnion (%s) (%s)" % (g_query(q[1]), g_query(q[2]))
    return "QSelect %s %s %s %s" % (g_list([g_item(i) for i in q[1]]), g_list([g_rel(x) for x in q[2]]),
                                    "true" if q[3] else "false", g_wh(q[4]))


def p_from(frm, cj):
    if cj:
        return ", ".join(p_rel(x) for x in frm)
    return p_rel(frm[0]) + "".join(" join %s on 1 = 1" % p_rel(x) for x in frm[1:])


def p_wh(wh):
    return "" if wh is None else " where %s in (%s)" % (wh[0], p_query(wh[1]))


def p_query(q):
    if q[0] == "union":
        return "%s union all %s" % (p_query(q[1]), p_query(q[2]))
    return "select %s from %s%s" % (", ".join(p_item(i) for i in q[1]), p_from(q[2], q[3]), p_wh(q[4]))


def gen_sets():
    return [(R.choice(COLS), R.choice([None, R.choice(NAMES)]), R.choice(COLS)) for _ in range(R.choice([1, 1, 2, 3]))]


def g_sets(sets):
    return g_list(["(%s, %s, %s)" % (cs(a), copt(q), cs(b)) for a, q, b in sets])


def p_sets(sets):
    return ", ".join("%s = %s%s" % (a, q + "." if q else "", b) for a, q, b in sets)


def gen_dml(kind):
    if kind == "update":
        frm = [gen_rel(2) for _ in range(R.choice([0, 1, 1, 2, 3]))]
        wh = (R.choice(COLS), gen_query(1, False)) if R.random() < 0.4 else None
        return ("update", gen_tref(), R.choice([None, None, R.choice(NAMES)]), gen_sets(), frm, R.random() < 0.5, wh)
    if kind == "merge":
        src = gen_rel(2)
        if src[0] == "table" and R.random() < 0.4:
            src = ("derived", gen_query(2), R.choice(NAMES))
        upd = gen_sets() if R.random() < 0.75 else []
        ins = None
        if not upd or R.random() < 0.6:
            n = R.choice([1, 2, 3])
            ins = ([R.choice(COLS) for _ in range(n)], [(R.choice([None, R.choice(NAMES)]), R.choice(COLS)) for _ in range(R.choice([n, n, n + 1, max(1, n - 1)]))])
        return ("merge", gen_tref(), R.choice([None, None, R.choice(NAMES)]), src, upd, ins)
    q = gen_select(2)
    return ("into", gen_tref(), q[1], q[2], q[3], q[4])


def g_dml(d):
    if d[0] == "update":
        return "DUpdate %s %s %s %s %s %s" % (g_tref(d[1]), copt(d[2]), g_sets(d[3]), g_list([g_rel(x) for x in d[4]]),
                                             "true" if d[5] else "false", g_wh(d[6]))
    if d[0] == "merge":
        ins = "None" if d[5] is None else "(Some (%s, %s))" % (g_list([cs(c) for c in d[5][0]]),
                                                             g_list(["(%s, %s)" % (copt(q), cs(c)) for q, c in d[5][1]]))
        return "DMerge %s %s (%s) %s %s" % (g_tref(d[1]), copt(d[2]), g_rel(d[3]), g_sets(d[4]), ins)
    return "DSelectInto %s %s %s %s %s" % (g_tref(d[1]), g_list([g_item(i) for i in d[2]]), g_list([g_rel(x) for x in d[3]]),
                                          "true" if d[4] else "false", g_wh(d[5]))


def p_dml(d):
    if d[0] == "update":
        return "update %s%s set %s%s%s" % (p_tref(d[1]), " as " + d[2] if d[2] else "", p_sets(d[3]),
                                          " from " + p_from(d[4], d[5]) if d[4] else "", p_wh(d[6]))
    if d[0] == "merge":
        s = "merge into %s%s using %s on 1 = 1" % (p_tref(d[1]), " as " + d[2] if d[2] else "", p_rel(d[3]))
        if d[4]:
            s += " when matched then update set " + p_sets(d[4])
        if d[5] is not None:
            s += " when not matched then insert (%s) values (%s)" % (", ".join(d[5][0]), ", ".join((q + "." if q else "") + c for q, c in d[5][1]))
        return s
    return "select %s into %s from %s%s" % (", ".join(p_item(i) for i in d[2]), p_tref(d[1]), p_from(d[3], d[4]), p_wh(d[5]))




HEADER = ("From SV Require Import Tree.RenderDml Tree.LemmaA Tree.LemmaADmlDefs.\nOpen Scope string_scope.\nOpen Scope list_scope.")

FIXED = [
    ("update", (None, "t"), None, [("a", None, "b")], [("table", (None, "u"), None)], False, ("c", ("select", [("col", None, "c", None)], [("table", (None, "v"), None)], False, None))),
    ("merge", (None, "t"), None, ("derived", ("select", [("col", None, "k", None), ("col", None, "a", None)], [("table", (None, "w"), None)], False, None), "s"),
     [("a", "s", "a")], (["k", "a"], [("s", "k"), ("s", "a")])),
    ("into", (None, "t2"), [("col", None, "a", None), ("col", None, "b", None)], [("table", (None, "t1"), None)], False, None),
]


def show(x):
    kids = [k for k in x.segments if not (k.is_whitespace or k.is_comment or k.is_meta)]
    head = x.type + "/" + x.get_type() + "/" + ",".join(sorted(c for c in x.class_types if c != "base"))
    return head + ("=" + x.raw if not x.segments else "(" + " ".join(show(k) for k in kids) + ")")


def run(ck, rnd, quick, spec_failures, disagreements, dist, part="tables"):
    global R
    R = rnd
    from sqllineage.core.parser.sqlfluff.analyzer import SqlFluffLineageAnalyzer
    from sqllineage.exceptions import SQLLineageException
    from sqllineage.runner import LineageRunner
    n = 20 if quick else 600
    if part == "columns":
        return run_columns(ck, quick, spec_failures, disagreements, dist, n)
    cases = FIXED + [gen_dml(k) for k in ("update", "merge", "into") for _ in range(n)]
    rend = coq_eval(HEADER, ["show_render_dml (%s)" % g_dml(d) for d in cases], shard=100)
    spec = coq_eval(HEADER, ['((if dml_ok (%s) then "in" else if dml_ok_base (%s) then "where" else "out") ++ "|" ++ show_tables_dml "" (%s) ++ "|" ++ '
                             'join "," (sort_strings (upd_impl_reads "" (%s))))%%string' % ((g_dml(d),) * 4) for d in cases], shard=100)
    an = {"ansi": SqlFluffLineageAnalyzer(".", "ansi"), "postgres": SqlFluffLineageAnalyzer(".", "postgres")}
    dd = {"statements": len(cases), "inside_guard": 0, "update_where_class": 0, "outside": 0, "layout_compared": 0, "kinds": {}}
    for d, m, sp in zip(cases, rend, spec):
        sql = p_dml(d)
        dialect = "postgres" if d[0] == "into" else "ansi"
        dd["kinds"][d[0]] = dd["kinds"].get(d[0], 0) + 1
        inside, tables, impl_reads = sp.split("|")
        ck.count()
        # (1) layout
        try:
            tree = show(an[dialect]._list_specific_statement_segment(sql)[0])
        except Exception as e:      # noqa
            tree = "ERR:" + type(e).__name__
        dd["layout_compared"] += 1
        if inside != "out" and tree != m:
            k = next((j for j in range(min(len(tree), len(m))) if tree[j] != m[j]), 0)
            disagreements.append({"suite": "T3-render-dml", "dialect": dialect, "sql": sql, "ast": g_dml(d),
                                  "parser": tree[max(0, k - 150):k + 300], "rendered": m[max(0, k - 150):k + 300],
                                  "broken_transfer": "Lemma A for UPDATE/MERGE/SELECT INTO (Tree/LemmaADml.v) speaks about rendered trees; "
                                                     "the parser no longer lays the statement out as Tree/RenderDml.v does"})
        # (2) tables
        if inside == "out":
            dd["outside"] += 1
            continue
        try:
            lr = LineageRunner(sql, dialect=dialect)
            got = "R=%s;W=%s" % (",".join(sorted(map(str, lr.source_tables))), ",".join(sorted(map(str, lr.target_tables))))
        except SQLLineageException as ex:
            got = "ERR:" + type(ex).__name__
        want_spec = tables
        want_defect = "R=%s;W=%s" % (impl_reads, tables.split(";")[1][2:])
        ck.nontriv(("dml", sql))
        case = {"suite": "S-dml", "dialect": dialect, "sql": sql, "impl": got, "spec": want_spec}
        if inside == "in":
            dd["inside_guard"] += 1
            if got != want_spec:
                spec_failures.append(case)
        else:
            dd["update_where_class"] += 1
            if got != want_spec and got != want_defect:
                spec_failures.append(dict(case, recorded_defect_K_C01_7=want_defect))
    dist["dml"] = dd


HEADER_COLS = ("From SV Require Import Ast.SpecDmlCols Tree.RenderDml Tree.LemmaA Tree.LemmaADmlDefs Tree.LemmaBDml.\n"
               "Open Scope string_scope.\nOpen Scope list_scope.")


def gen_dml_cols(kind):
    """UPDATE over base tables / MERGE with a table source, qualifiers drawn from the names in scope (inside dml_cols_ok mostly)"""
    def base(used):
        t = gen_tref()
        while t[1] in used:
            t = gen_tref()
        used.add(t[1])
        return ("table", t, R.choice([None, None, "x" + t[1]]))
    used = set()
    tgt = gen_tref()
    used.add(tgt[1])
    if kind == "update":
        frm = [base(used) for _ in range(R.choice([1, 1, 2, 3]))]
        names = [x[2] or x[1][1] for x in frm]
        sets = [(R.choice(COLS), R.choice([None] + names), R.choice(COLS)) for _ in range(R.choice([1, 2, 3]))]
        return ("update", tgt, R.choice([None, None, "tz"]), sets, frm, R.random() < 0.5, None)
    src = base(used)
    nm = src[2] or src[1][1]
    upd = [(R.choice(COLS), R.choice([None, nm]), R.choice(COLS)) for _ in range(R.choice([0, 1, 2]))]
    ins = None
    if not upd or R.random() < 0.6:
        k = R.choice([1, 2, 3])
        ins = ([R.choice(COLS) for _ in range(k)], [(R.choice([None, nm]), R.choice(COLS)) for _ in range(R.choice([k, k, k + 1, max(1, k - 1)]))])
    return ("merge", tgt, R.choice([None, None, "tz"]), src, upd, ins)


def run_columns(ck, quick, spec_failures, disagreements, dist, n):
    import t2tie
    from sqllineage.exceptions import SQLLineageException
    from sqllineage.runner import LineageRunner
    cases = [gen_dml_cols(k) for k in ("update", "merge") for _ in range(n)]
    spec = coq_eval(HEADER_COLS, ['((if dml_cols_ok (%s) then "in" else "out") ++ "|" ++ show_spec_dml "" (%s))%%string' % ((g_dml(d),) * 2) for d in cases], shard=100)
    dd = {"statements": len(cases), "inside_dml_cols_ok": 0, "with_pairs": 0}
    for d, sp in zip(cases, spec):
        inside, _, want = sp.partition("|")
        ck.count()
        if inside != "in":
            continue
        dd["inside_dml_cols_ok"] += 1
        sql = p_dml(d)
        try:
            lr = LineageRunner(sql, dialect="ansi")
            lr._eval()
            got = t2tie.summary(lr)
        except SQLLineageException as ex:
            got = "ERR:" + type(ex).__name__
        if "#" in want and want.split("#", 1)[1]:
            dd["with_pairs"] += 1
            ck.nontriv(("dml-cols", sql))
        # the specification prints unresolved sources as name{candidates}; t2tie.summary does the same
        if got != want:
            spec_failures.append({"suite": "S-dml-columns", "dialect": "ansi", "sql": sql, "impl": got, "spec": want,
                                  "detail": "UPDATE / MERGE inside dml_cols_ok (Tree/LemmaBDml.v): the implementation must report the specified column pairs"})
    dist["dml_columns"] = dd
